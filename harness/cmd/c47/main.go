// C47: WebSocket and TLS stream tunnels are byte-transparent.
//
// Drives the REAL bfe_websocket protocol handler behind bfe_server's real conn/response (Hijack) objects
// (NewProtoHandler -> serverConn.serve: findBackend,
// websocketHandshake, websocketDataTransfer, wait loop) and the REAL bfe_stream handler (NewProtoHandler ->
// serve: findBackend, TLSProxyHandler, wait loop; behind bfe_tls via bfe_util.MockServer) between a scripted
// client and a scripted backend on loopback TCP.
//
// op     : <ws|tls|tlsr|t10c|t11c|t12c|t12g>;pc=<hex>;pb=<hex>;s=<step>,<step>,...      step = c:<hex> | b:<hex> | xc | xb
//
//	pc: bytes the client sends in the SAME write as the upgrade request (ws) / right behind the handshake (tls)
//	pb: bytes the backend sends in the SAME write as its 101 response (ws) / immediately on accept (tls)
//	c:/b: a further write by client / backend; xc/xb: that side closes (after draining what was sent to it so far)
//
// result : B=<hex backend received> C=<hex client received> bclosed=<0|1> cclosed=<0|1>
// Verdicts compare complete byte streams at the end; deadlines only bound the wait (5 s), they never decide.
package main

import (
	"bytes"
	stdtls "crypto/tls"
	"encoding/binary"
	"fmt"
	"io"
	"net"
	"strings"
	"sync"
	"time"

	"bfeverif/harness/internal/vh"
	"github.com/bfenetworks/bfe/bfe_balance/backend"
	"github.com/bfenetworks/bfe/bfe_http"
	"github.com/bfenetworks/bfe/bfe_server"
	"github.com/bfenetworks/bfe/bfe_stream"
	"github.com/bfenetworks/bfe/bfe_tls"
	"github.com/bfenetworks/bfe/bfe_util"
	"github.com/bfenetworks/bfe/bfe_websocket"
)

const wait = 5 * time.Second

// collector reads a connection to its end and lets others wait for a byte count
type collector struct {
	mu   sync.Mutex
	cond *sync.Cond
	buf  []byte
	done bool
}

func newCollector() *collector { c := &collector{}; c.cond = sync.NewCond(&c.mu); return c }

func (c *collector) run(r io.Reader, initial []byte) {
	c.mu.Lock()
	c.buf = append(c.buf, initial...)
	c.cond.Broadcast()
	c.mu.Unlock()
	b := make([]byte, 32*1024)
	for {
		n, err := r.Read(b)
		c.mu.Lock()
		c.buf = append(c.buf, b[:n]...)
		if err != nil {
			c.done = true
		}
		c.cond.Broadcast()
		c.mu.Unlock()
		if err != nil {
			return
		}
	}
}

// waitFor blocks until pred holds or the deadline passes; reports whether it held.
func (c *collector) waitFor(pred func() bool) bool {
	deadline := time.Now().Add(wait)
	t := time.AfterFunc(wait, func() { c.mu.Lock(); c.cond.Broadcast(); c.mu.Unlock() })
	defer t.Stop()
	c.mu.Lock()
	defer c.mu.Unlock()
	for !pred() {
		if time.Now().After(deadline) {
			return false
		}
		c.cond.Wait()
	}
	return true
}

// ---------------------------------------------------------------------------------------------
// fixtures: one backend listener, one ws proxy listener, one tls proxy (MockServer); created once.

var (
	once      sync.Once
	backendL  net.Listener
	backendCh = make(chan net.Conn, 16)
	wsL       net.Listener
	tlsSrv    *bfe_util.MockServer
)

func balance(interface{}) (*backend.BfeBackend, error) {
	b := backend.NewBfeBackend()
	b.AddrInfo = backendL.Addr().String()
	return b, nil
}

func setup() {
	var err error
	backendL, err = net.Listen("tcp", "127.0.0.1:0")
	if err != nil {
		panic(err)
	}
	go func() {
		for {
			c, err := backendL.Accept()
			if err != nil {
				return
			}
			backendCh <- c
		}
	}()
	// websocket proxy: bfe_server's own connection + response objects (hook VerifC47ServeUpgrade: real newConn,
	// request read as conn.readRequest does, real response.WriteHeader/Flush/Hijack) around the real handler
	wsL, err = net.Listen("tcp", "127.0.0.1:0")
	if err != nil {
		panic(err)
	}
	handler := bfe_websocket.NewProtoHandler(&bfe_websocket.Server{BalanceHandler: balance})
	go func() {
		for {
			conn, err := wsL.Accept()
			if err != nil {
				return
			}
			go func() {
				defer conn.Close()
				bfe_server.VerifC47ServeUpgrade(conn, bfe_websocket.CheckUpgradeWebSocket, handler)
			}()
		}
	}()
	// TLS stream proxy
	tlsSrv = bfe_util.NewUnstartedServer(nil)
	tlsSrv.TLS = new(bfe_tls.Config)
	tlsSrv.TLS.NextProtos = append(tlsSrv.TLS.NextProtos, "stream", "wr")
	tlsSrv.Config.TLSNextProto = make(map[string]func(*bfe_http.Server, *bfe_tls.Conn, bfe_http.Handler))
	tlsSrv.Config.TLSNextProto["stream"] = bfe_stream.NewProtoHandler(&bfe_stream.Server{BalanceHandler: balance})
	tlsSrv.Config.TLSNextProto["wr"] = wrHandler
	tlsSrv.StartTLS()
	primeResume()
}

// coalesceConn lets the first write (ClientHello) through and then holds every write back until release();
// the first write after release() goes out together with everything held, in ONE Write on the socket.
type coalesceConn struct {
	net.Conn
	mu   sync.Mutex
	n    int
	hold bool
	buf  []byte
}

func (c *coalesceConn) Write(p []byte) (int, error) {
	c.mu.Lock()
	defer c.mu.Unlock()
	c.n++
	if c.n == 1 {
		return c.Conn.Write(p)
	}
	if c.hold {
		c.buf = append(c.buf, p...)
		return len(p), nil
	}
	if len(c.buf) == 0 {
		return c.Conn.Write(p)
	}
	out := append(c.buf, p...)
	c.buf = nil
	if _, err := c.Conn.Write(out); err != nil {
		return 0, err
	}
	return len(p), nil
}

func (c *coalesceConn) release() { c.mu.Lock(); c.hold = false; c.mu.Unlock() }

func (c *coalesceConn) flush() error {
	c.mu.Lock()
	defer c.mu.Unlock()
	out := c.buf
	c.buf = nil
	if len(out) == 0 {
		return nil
	}
	_, err := c.Conn.Write(out)
	return err
}

// resumeCfg carries the client session cache; primeResume runs one full handshake through the stream tunnel so
// that the cache holds a session ticket of the proxy.
var resumeCfg = &bfe_tls.Config{InsecureSkipVerify: true, NextProtos: []string{"stream"},
	ClientSessionCache: bfe_tls.NewLRUClientSessionCache(8)}

func primeResume() {
	// same construction as the tlsr cases (bfe_tls.Client over a dialled conn), so that the cache key matches
	raw, err := net.Dial("tcp", tlsSrv.Listener.Addr().String())
	if err != nil {
		panic("prime: " + err.Error())
	}
	c := bfe_tls.Client(raw, resumeCfg)
	if err := c.Handshake(); err != nil {
		panic("prime: " + err.Error())
	}
	select {
	case bk := <-backendCh:
		bk.Close()
	case <-time.After(wait):
	}
	c.Close()
}

// stdClient: tunnel variants whose client is Go's crypto/tls at a fixed version and cipher suite, so that the client
// side of the tunnel inside bfe is a bfe_tls server Conn writing TLS 1.0 CBC (1/n-1 record split), TLS 1.1 CBC or
// TLS 1.2 AEAD records.
var stdClient = map[string]struct {
	vers  uint16
	suite uint16
}{
	"t10c": {stdtls.VersionTLS10, stdtls.TLS_ECDHE_RSA_WITH_AES_128_CBC_SHA},
	"t11c": {stdtls.VersionTLS11, stdtls.TLS_ECDHE_RSA_WITH_AES_128_CBC_SHA},
	"t12c": {stdtls.VersionTLS12, stdtls.TLS_ECDHE_RSA_WITH_AES_128_CBC_SHA},
	"t12g": {stdtls.VersionTLS12, stdtls.TLS_ECDHE_RSA_WITH_AES_128_GCM_SHA256},
}

func stdCfg(name, proto string) *stdtls.Config {
	v := stdClient[name]
	return &stdtls.Config{InsecureSkipVerify: true, NextProtos: []string{proto},
		MinVersion: v.vers, MaxVersion: v.vers, CipherSuites: []uint16{v.suite}}
}

// direct io.Writer contract of bfe_tls.Conn.Write: op `wr;v=<t10c|t11c|t12c|t12g>;n=<len>[,<len>...]`.
// The bfe_tls server conn performs one Write per length; result `k=<count>/<err>,... rcv=<bytes the client got> same=<0|1>`.
type wrOut struct {
	ks   []string
	sent []byte
}

var wrRes = make(chan wrOut, 4)

func wrHandler(hs *bfe_http.Server, c *bfe_tls.Conn, h bfe_http.Handler) {
	defer c.Close()
	var out wrOut
	hdr := make([]byte, 4)
	if _, err := io.ReadFull(c, hdr); err != nil {
		wrRes <- out
		return
	}
	cnt := int(binary.BigEndian.Uint32(hdr))
	p := &pat{pos: 7}
	for i := 0; i < cnt; i++ {
		if _, err := io.ReadFull(c, hdr); err != nil {
			break
		}
		b := p.take(int(binary.BigEndian.Uint32(hdr)), 'w')
		k, err := c.Write(b)
		e := 0
		if err != nil {
			e = 1
		}
		out.ks = append(out.ks, fmt.Sprintf("%d/%d", k, e))
		out.sent = append(out.sent, b...)
	}
	wrRes <- out
}

func execWrite(f []string) string {
	if len(f) != 3 || !strings.HasPrefix(f[1], "v=") || !strings.HasPrefix(f[2], "n=") {
		return "bad-op"
	}
	if _, ok := stdClient[f[1][2:]]; !ok {
		return "bad-op"
	}
	var lens []int
	for _, x := range strings.Split(f[2][2:], ",") {
		var n int
		if _, err := fmt.Sscanf(x, "%d", &n); err != nil || n < 0 || n > 1<<20 {
			return "bad-op"
		}
		lens = append(lens, n)
	}
	for len(wrRes) > 0 {
		<-wrRes
	}
	sc, err := stdtls.Dial("tcp", tlsSrv.Listener.Addr().String(), stdCfg(f[1][2:], "wr"))
	if err != nil {
		return "err:std-dial:" + err.Error()
	}
	defer sc.Close()
	req := make([]byte, 4, 4+4*len(lens))
	binary.BigEndian.PutUint32(req, uint32(len(lens)))
	for _, n := range lens {
		var x [4]byte
		binary.BigEndian.PutUint32(x[:], uint32(n))
		req = append(req, x[:]...)
	}
	if _, err := sc.Write(req); err != nil {
		return "err:write-req"
	}
	sc.SetReadDeadline(time.Now().Add(wait))
	got, _ := io.ReadAll(sc)
	var out wrOut
	select {
	case out = <-wrRes:
	case <-time.After(wait):
		return "err:no-result"
	}
	return fmt.Sprintf("k=%s rcv=%d same=%d", strings.Join(out.ks, ","), len(got), b2i(bytes.Equal(got, out.sent)))
}

const upgradeReq = "GET /tunnel HTTP/1.1\r\nHost: verif.local\r\nUpgrade: websocket\r\nConnection: Upgrade\r\n" +
	"Sec-WebSocket-Key: dGhlIHNhbXBsZSBub25jZQ==\r\nSec-WebSocket-Version: 13\r\n\r\n"
const upgradeRsp = "HTTP/1.1 101 Switching Protocols\r\nUpgrade: websocket\r\nConnection: Upgrade\r\n" +
	"Sec-WebSocket-Accept: s3pPLMBiTxaQ9kYGzzhZRbK+xOo=\r\n\r\n"

// readHead reads byte by byte up to and including the first empty line
func readHead(c net.Conn) error {
	c.SetReadDeadline(time.Now().Add(wait))
	defer c.SetReadDeadline(time.Time{})
	var h []byte
	b := make([]byte, 1)
	for !bytes.HasSuffix(h, []byte("\r\n\r\n")) {
		if _, err := io.ReadFull(c, b); err != nil {
			return err
		}
		h = append(h, b[0])
		if len(h) > 8192 {
			return fmt.Errorf("head too long")
		}
	}
	return nil
}

type halfCloser interface{ CloseWrite() error }

func exec(op string) string {
	once.Do(setup)
	f := strings.Split(op, ";")
	if f[0] == "wr" {
		return execWrite(f)
	}
	_, isStd := stdClient[f[0]]
	if len(f) != 4 || (f[0] != "ws" && f[0] != "tls" && f[0] != "tlsr" && !isStd) || !strings.HasPrefix(f[1], "pc=") ||
		!strings.HasPrefix(f[2], "pb=") || !strings.HasPrefix(f[3], "s=") {
		return "bad-op"
	}
	pc, ok1 := vh.UnHex(f[1][3:])
	pb, ok2 := vh.UnHex(f[2][3:])
	if !ok1 || !ok2 {
		return "bad-op"
	}
	type step struct {
		kind string
		data []byte
	}
	var steps []step
	if f[3][2:] != "-" {
		for _, s := range strings.Split(f[3][2:], ",") {
			switch {
			case s == "xc" || s == "xb":
				steps = append(steps, step{kind: s})
			case strings.HasPrefix(s, "c:") || strings.HasPrefix(s, "b:") || strings.HasPrefix(s, "C:") || strings.HasPrefix(s, "B:"):
				d, ok := vh.UnHex(s[2:])
				if !ok {
					return "bad-op"
				}
				steps = append(steps, step{kind: s[:1], data: d})
			default:
				return "bad-op"
			}
		}
	}
	// drain stale backend conns of an earlier failed case
	for len(backendCh) > 0 {
		(<-backendCh).Close()
	}

	var cli net.Conn
	var err error
	var bk net.Conn
	defer func() {
		if bk == nil { // failed before taking the backend connection: do not leave it to the next case
			select {
			case c := <-backendCh:
				c.Close()
			case <-time.After(time.Second):
			}
		}
	}()
	if f[0] == "ws" {
		cli, err = net.Dial("tcp", wsL.Addr().String())
		if err != nil {
			return "err:dial"
		}
		if _, err = cli.Write(append([]byte(upgradeReq), pc...)); err != nil {
			return "err:write-upgrade"
		}
	} else if isStd {
		// the client side of the tunnel is a bfe_tls SERVER conn at a chosen version / suite; Go's crypto/tls is the client
		cfg := stdCfg(f[0], "stream")
		sc, err := stdtls.Dial("tcp", tlsSrv.Listener.Addr().String(), cfg)
		if err != nil {
			return "err:std-dial:" + err.Error()
		}
		if st := sc.ConnectionState(); st.Version != cfg.MinVersion || st.NegotiatedProtocol != "stream" {
			sc.Close()
			return "err:std-negotiation"
		}
		cli = sc
		if len(pc) > 0 {
			if _, err = cli.Write(pc); err != nil {
				return "err:write-pc"
			}
		}
	} else if f[0] == "tls" {
		cfg := &bfe_tls.Config{InsecureSkipVerify: true, NextProtos: []string{"stream"}}
		cli, err = bfe_tls.Dial("tcp", tlsSrv.Listener.Addr().String(), cfg)
		if err != nil {
			return "err:tls-dial"
		}
		if len(pc) > 0 {
			if _, err = cli.Write(pc); err != nil {
				return "err:write-pc"
			}
		}
	} else {
		// tlsr: RESUMED session (ticket from the priming connection); the client's final handshake flight
		// (ChangeCipherSpec + Finished) is held back and goes out in the SAME write as its first application data
		raw, err := net.Dial("tcp", tlsSrv.Listener.Addr().String())
		if err != nil {
			return "err:dial"
		}
		cw := &coalesceConn{Conn: raw, hold: true}
		tc := bfe_tls.Client(cw, resumeCfg)
		raw.SetDeadline(time.Now().Add(wait))
		if err := tc.Handshake(); err != nil {
			raw.Close()
			return "err:tls-handshake:" + err.Error()
		}
		raw.SetDeadline(time.Time{})
		if !tc.ConnectionState().DidResume {
			raw.Close()
			return "err:not-resumed"
		}
		cli = tc
		cw.release()
		if len(pc) > 0 {
			if _, err = cli.Write(pc); err != nil {
				return "err:write-pc"
			}
		} else if err := cw.flush(); err != nil {
			return "err:flush"
		}
	}
	defer cli.Close()
	select {
	case bk = <-backendCh:
	case <-time.After(wait):
		return "err:no-backend-conn"
	}
	defer bk.Close()
	if f[0] == "ws" {
		if err := readHead(bk); err != nil {
			return "err:backend-head"
		}
		if _, err := bk.Write(append([]byte(upgradeRsp), pb...)); err != nil {
			return "err:backend-rsp"
		}
		if err := readHead(cli); err != nil {
			return "err:client-head"
		}
	} else if len(pb) > 0 {
		if _, err := bk.Write(pb); err != nil {
			return "err:write-pb"
		}
	}
	cc, bc := newCollector(), newCollector()
	go cc.run(cli, nil)
	go bc.run(bk, nil)
	sentC, sentB := len(pc), len(pb)
	closed := ""
	for _, s := range steps {
		switch s.kind {
		case "c":
			if _, err := cli.Write(s.data); err != nil {
				closed = "c" // the tunnel is gone: stop the script, report what arrived
				break
			}
			sentC += len(s.data)
		case "b":
			if _, err := bk.Write(s.data); err != nil {
				closed = "b"
				break
			}
			sentB += len(s.data)
		case "C": // a round: the client writes and the script goes on only when the backend has it
			if _, err := cli.Write(s.data); err != nil {
				closed = "c"
				break
			}
			sentC += len(s.data)
			if !bc.waitFor(func() bool { return len(bc.buf) >= sentC || bc.done }) {
				closed = "c"
			}
		case "B": // a round: the backend writes and the script goes on only when the client has it
			if _, err := bk.Write(s.data); err != nil {
				closed = "b"
				break
			}
			sentB += len(s.data)
			if !cc.waitFor(func() bool { return len(cc.buf) >= sentB || cc.done }) {
				closed = "b"
			}
		case "xc": // the client has seen everything sent to it so far, then closes; its own bytes may be in flight
			cc.waitFor(func() bool { return len(cc.buf) >= sentB || cc.done })
			cli.Close()
			closed = "c"
		case "xb":
			bc.waitFor(func() bool { return len(bc.buf) >= sentC || bc.done })
			bk.Close()
			closed = "b"
		}
		if closed != "" {
			break
		}
	}
	if closed == "" { // script without close: let everything arrive, then the client closes
		cc.waitFor(func() bool { return len(cc.buf) >= sentB || cc.done })
		bc.waitFor(func() bool { return len(bc.buf) >= sentC || bc.done })
		cli.Close()
		closed = "c"
	}
	// the other side must see the end of the tunnel
	cdone := cc.waitFor(func() bool { return cc.done })
	bdone := bc.waitFor(func() bool { return bc.done })
	cc.mu.Lock()
	bc.mu.Lock()
	res := fmt.Sprintf("B=%s C=%s bclosed=%d cclosed=%d", vh.Hex(bc.buf), vh.Hex(cc.buf), b2i(bdone), b2i(cdone))
	bc.mu.Unlock()
	cc.mu.Unlock()
	return res
}

func b2i(b bool) int {
	if b {
		return 1
	}
	return 0
}

// ---------------------------------------------------------------------------------------------
// generator: patterned payloads (position-dependent bytes, so loss / duplication / reordering changes the stream)

type pat struct{ pos uint32 }

func (p *pat) take(n int, salt byte) []byte {
	b := make([]byte, n)
	for i := range b {
		x := p.pos*2654435761 + uint32(salt)*97
		b[i] = byte(x>>24) ^ byte(p.pos)
		p.pos++
	}
	return b
}

func size(r *vh.Rand) int {
	switch r.Intn(10) {
	case 0:
		return 1
	case 1:
		return r.Range(4090, 4100) // around the bufio buffer
	case 2:
		return r.Range(32760, 32780) // around io.Copy's 32 KiB buffer
	case 3:
		return r.Range(40000, 90000)
	case 4, 5:
		return r.Range(100, 3000)
	}
	return r.Range(1, 64)
}

var stdNames = []string{"t10c", "t10c", "t11c", "t12c", "t12g"}

func genWrite(r *vh.Rand) string {
	k := r.Range(1, 4)
	var ns []string
	for i := 0; i < k; i++ {
		n := 0
		switch r.Intn(8) {
		case 0:
			n = r.Intn(3)
		case 1:
			n = r.Range(16380, 16390) // around maxPlaintext
		case 2:
			n = r.Range(32760, 32775)
		case 3:
			n = r.Range(16384, 70000)
		default:
			n = r.Range(2, 4000)
		}
		ns = append(ns, fmt.Sprint(n))
	}
	return fmt.Sprintf("wr;v=%s;n=%s", stdNames[r.Intn(len(stdNames))], strings.Join(ns, ","))
}

func gen(r *vh.Rand) string {
	if r.Chance(1, 8) {
		return genWrite(r)
	}
	proto := "ws"
	switch r.Intn(20) {
	case 0, 1, 2, 3, 4:
		proto = "tls"
	case 5, 6, 7, 8, 9:
		proto = "tlsr" // resumed session, first data coalesced with the client's Finished
	case 10, 11, 12, 13:
		proto = stdNames[r.Intn(len(stdNames))] // bfe_tls server conn at TLS 1.0/1.1 CBC or 1.2 CBC/AEAD towards the client
	}
	_, std := stdClient[proto]
	pc, pb := &pat{}, &pat{pos: 1 << 20}
	var pcb, pbb []byte
	if r.Chance(2, 3) {
		n := size(r)
		if proto == "ws" && r.Chance(1, 2) {
			n = r.Range(3800, 4400) // fill the request's bufio buffer: request (173 bytes) + pipelined data around 4096
		}
		pcb = pc.take(n, 'c')
	}
	if proto == "tlsr" && len(pcb) == 0 && !r.Chance(1, 6) {
		pcb = pc.take(size(r), 'c')
	}
	if r.Chance(2, 3) {
		n := size(r)
		if proto == "ws" && r.Chance(1, 2) {
			n = r.Range(3900, 4200)
		}
		pbb = pb.take(n, 'b')
	}
	var steps []string
	k := r.Intn(7)
	if std && k < 3 {
		k = r.Range(3, 6)
	}
	for i := 0; i < k; i++ {
		// rounds (C:/B:) keep writes apart so that each is relayed by its own Read/Write; always for the std-client variants
		sync := std || r.Chance(1, 4)
		if r.Bool() && !(std && i < 2) {
			if sync {
				steps = append(steps, "C:"+vh.Hex(pc.take(size(r), 'c')))
			} else {
				steps = append(steps, "c:"+vh.Hex(pc.take(size(r), 'c')))
			}
		} else if sync {
			steps = append(steps, "B:"+vh.Hex(pb.take(size(r)+1, 'b')))
		} else {
			steps = append(steps, "b:"+vh.Hex(pb.take(size(r), 'b')))
		}
	}
	switch r.Intn(3) {
	case 0:
		steps = append(steps, "xc")
	case 1:
		steps = append(steps, "xb")
	}
	s := "-"
	if len(steps) > 0 {
		s = strings.Join(steps, ",")
	}
	return fmt.Sprintf("%s;pc=%s;pb=%s;s=%s", proto, vh.Hex(pcb), vh.Hex(pbb), s)
}

func main() { vh.Main(gen, exec) }
