// C47: WebSocket and TLS stream tunnels are byte-transparent.
//
// Drives the REAL bfe_websocket protocol handler behind bfe_server's real conn/response (Hijack) objects and the REAL
// bfe_stream handler behind bfe_tls (via bfe_util.MockServer) between a scripted client and a scripted backend on
// loopback TCP.
//
// op     : <proto>;pc=<hex>;pb=<hex>;s=<step>,<step>,...
//
//	proto: ws (plain websocket) | wss (websocket, bfe_tls client) | wss0 (websocket, crypto/tls client at TLS1.0 CBC)
//	       tls (stream tunnel, bfe_tls client) | tlsr (resumed session, first data in the same write as Finished)
//	       t10c|t11c|t12c|t12g (stream tunnel, crypto/tls client at a fixed version/suite)
//	pc: bytes the client sends in the SAME write as the upgrade request (ws*) / right behind the handshake (tls*)
//	pb: bytes the backend sends in the SAME write as its 101 response (ws*) / immediately on accept (tls*)
//	step: c:<hex> | b:<hex>  a further write by client / backend
//	      C:<hex> | B:<hex>  the same as a ROUND (the script continues when the bytes have arrived)
//	      xc | xb            that side closes (after draining what was sent to it so far)
//	      hc | hb            that side HALF-closes (CloseWrite) and keeps reading
//
// result : B=<hex backend received> C=<hex client received> bclosed=<0|1> cclosed=<0|1>
//
//	ws*: + hs=<ok|...> (request line and every header of the upgrade request arrive at the backend, status and
//	every header of the 101 response arrive at the client, values unchanged) x=<headers bfe ADDED to the 101>
//
// op     : big;p=<proto>;c=<n>;b=<n>;slow=<c|b|->;x=<c|b>[;k=<n>]   n patterned bytes each way, optional late reader
//
//	(back-pressure), optionally k such tunnels concurrently (each with its own pattern)
//
// result : B=<n>/<ok|bad@off> C=<n>/<ok|bad@off> bclosed=.. cclosed=..   (pattern verified by the harness)
// op     : wr;v=<t10c|t11c|t12c|t12g>;n=<len>,...            io.Writer contract of bfe_tls.Conn.Write
// Verdicts compare complete byte streams at the end; the 30 s watchdogs only bound the wait, they never decide.
package main

import (
	"bytes"
	stdtls "crypto/tls"
	"encoding/binary"
	"fmt"
	"io"
	"net"
	"sort"
	"strings"
	"sync"
	"time"

	"bfeverif/harness/internal/vh"
	"github.com/bfenetworks/bfe/bfe_balance/backend"
	"github.com/bfenetworks/bfe/bfe_http"
	"github.com/bfenetworks/bfe/bfe_server"
	"github.com/bfenetworks/bfe/bfe_stream"
	"github.com/bfenetworks/bfe/bfe_tls"
	"github.com/bfenetworks/bfe/bfe_util"
	"github.com/bfenetworks/bfe/bfe_websocket"
)

const wait = 30 * time.Second

// collector reads a connection to its end and lets others wait for a byte count
type collector struct {
	mu   sync.Mutex
	cond *sync.Cond
	buf  []byte
	done bool
}

func newCollector() *collector { c := &collector{}; c.cond = sync.NewCond(&c.mu); return c }

func (c *collector) run(r io.Reader, initial []byte) {
	c.mu.Lock()
	c.buf = append(c.buf, initial...)
	c.cond.Broadcast()
	c.mu.Unlock()
	b := make([]byte, 32*1024)
	for {
		n, err := r.Read(b)
		c.mu.Lock()
		c.buf = append(c.buf, b[:n]...)
		if err != nil {
			c.done = true
		}
		c.cond.Broadcast()
		c.mu.Unlock()
		if err != nil {
			return
		}
	}
}

// waitFor blocks until pred holds or the deadline passes; reports whether it held.
func (c *collector) waitFor(pred func() bool) bool {
	deadline := time.Now().Add(wait)
	t := time.AfterFunc(wait, func() { c.mu.Lock(); c.cond.Broadcast(); c.mu.Unlock() })
	defer t.Stop()
	c.mu.Lock()
	defer c.mu.Unlock()
	for !pred() {
		if time.Now().After(deadline) {
			return false
		}
		c.cond.Wait()
	}
	return true
}

// ---------------------------------------------------------------------------------------------
// fixtures: one backend listener, one ws proxy listener, one tls proxy (MockServer); created once.

var (
	once      sync.Once
	backendL  net.Listener
	backendCh = make(chan net.Conn, 16)
	wsL       net.Listener
	tlsSrv    *bfe_util.MockServer
)

func balance(interface{}) (*backend.BfeBackend, error) {
	b := backend.NewBfeBackend()
	b.AddrInfo = backendL.Addr().String()
	return b, nil
}

func setup() {
	var err error
	backendL, err = net.Listen("tcp", "127.0.0.1:0")
	if err != nil {
		panic(err)
	}
	go func() {
		for {
			c, err := backendL.Accept()
			if err != nil {
				return
			}
			backendCh <- c
		}
	}()
	// websocket proxy: bfe_server's own connection + response objects (hook VerifC47ServeUpgrade: real newConn,
	// request read as conn.readRequest does, real response.WriteHeader/Flush/Hijack) around the real handler
	wsL, err = net.Listen("tcp", "127.0.0.1:0")
	if err != nil {
		panic(err)
	}
	handler := bfe_websocket.NewProtoHandler(&bfe_websocket.Server{BalanceHandler: balance})
	go func() {
		for {
			conn, err := wsL.Accept()
			if err != nil {
				return
			}
			go func() {
				defer conn.Close()
				bfe_server.VerifC47ServeUpgrade(conn, bfe_websocket.CheckUpgradeWebSocket, handler)
			}()
		}
	}()
	// TLS stream proxy
	tlsSrv = bfe_util.NewUnstartedServer(nil)
	tlsSrv.TLS = new(bfe_tls.Config)
	tlsSrv.TLS.NextProtos = append(tlsSrv.TLS.NextProtos, "stream", "wr", "wss")
	tlsSrv.Config.TLSNextProto = make(map[string]func(*bfe_http.Server, *bfe_tls.Conn, bfe_http.Handler))
	tlsSrv.Config.TLSNextProto["stream"] = bfe_stream.NewProtoHandler(&bfe_stream.Server{BalanceHandler: balance})
	tlsSrv.Config.TLSNextProto["wr"] = wrHandler
	// wss: the upgrade request arrives inside TLS; "wss" is only this harness's ALPN label to route to the hook
	tlsSrv.Config.TLSNextProto["wss"] = func(hs *bfe_http.Server, c *bfe_tls.Conn, h bfe_http.Handler) {
		defer c.Close()
		bfe_server.VerifC47ServeUpgrade(c, bfe_websocket.CheckUpgradeWebSocket, handler)
	}
	tlsSrv.StartTLS()
	primeResume()
}

// coalesceConn lets the first write (ClientHello) through and then holds every write back until release();
// the first write after release() goes out together with everything held, in ONE Write on the socket.
type coalesceConn struct {
	net.Conn
	mu   sync.Mutex
	n    int
	hold bool
	buf  []byte
}

func (c *coalesceConn) Write(p []byte) (int, error) {
	c.mu.Lock()
	defer c.mu.Unlock()
	c.n++
	if c.n == 1 {
		return c.Conn.Write(p)
	}
	if c.hold {
		c.buf = append(c.buf, p...)
		return len(p), nil
	}
	if len(c.buf) == 0 {
		return c.Conn.Write(p)
	}
	out := append(c.buf, p...)
	c.buf = nil
	if _, err := c.Conn.Write(out); err != nil {
		return 0, err
	}
	return len(p), nil
}

func (c *coalesceConn) release() { c.mu.Lock(); c.hold = false; c.mu.Unlock() }

func (c *coalesceConn) flush() error {
	c.mu.Lock()
	defer c.mu.Unlock()
	out := c.buf
	c.buf = nil
	if len(out) == 0 {
		return nil
	}
	_, err := c.Conn.Write(out)
	return err
}

// resumeCfg carries the client session cache; primeResume runs one full handshake through the stream tunnel so
// that the cache holds a session ticket of the proxy.
var resumeCfg = &bfe_tls.Config{InsecureSkipVerify: true, NextProtos: []string{"stream"},
	ClientSessionCache: bfe_tls.NewLRUClientSessionCache(8)}

func primeResume() {
	// same construction as the tlsr cases (bfe_tls.Client over a dialled conn), so that the cache key matches
	raw, err := net.Dial("tcp", tlsSrv.Listener.Addr().String())
	if err != nil {
		panic("prime: " + err.Error())
	}
	c := bfe_tls.Client(raw, resumeCfg)
	if err := c.Handshake(); err != nil {
		panic("prime: " + err.Error())
	}
	select {
	case bk := <-backendCh:
		bk.Close()
	case <-time.After(wait):
	}
	c.Close()
}

// stdClient: tunnel variants whose client is Go's crypto/tls at a fixed version and cipher suite, so that the client
// side of the tunnel inside bfe is a bfe_tls server Conn writing TLS 1.0 CBC (1/n-1 record split), TLS 1.1 CBC or
// TLS 1.2 AEAD records.
var stdClient = map[string]struct {
	vers  uint16
	suite uint16
}{
	"t10c": {stdtls.VersionTLS10, stdtls.TLS_ECDHE_RSA_WITH_AES_128_CBC_SHA},
	"t11c": {stdtls.VersionTLS11, stdtls.TLS_ECDHE_RSA_WITH_AES_128_CBC_SHA},
	"t12c": {stdtls.VersionTLS12, stdtls.TLS_ECDHE_RSA_WITH_AES_128_CBC_SHA},
	"t12g": {stdtls.VersionTLS12, stdtls.TLS_ECDHE_RSA_WITH_AES_128_GCM_SHA256},
}

func stdCfg(name, proto string) *stdtls.Config {
	v := stdClient[name]
	return &stdtls.Config{InsecureSkipVerify: true, NextProtos: []string{proto},
		MinVersion: v.vers, MaxVersion: v.vers, CipherSuites: []uint16{v.suite}}
}

// direct io.Writer contract of bfe_tls.Conn.Write: op `wr;v=<t10c|t11c|t12c|t12g>;n=<len>[,<len>...]`.
// The bfe_tls server conn performs one Write per length; result `k=<count>/<err>,... rcv=<bytes the client got> same=<0|1>`.
type wrOut struct {
	ks   []string
	sent []byte
}

var wrRes = make(chan wrOut, 4)

func wrHandler(hs *bfe_http.Server, c *bfe_tls.Conn, h bfe_http.Handler) {
	defer c.Close()
	var out wrOut
	hdr := make([]byte, 4)
	if _, err := io.ReadFull(c, hdr); err != nil {
		wrRes <- out
		return
	}
	cnt := int(binary.BigEndian.Uint32(hdr))
	p := &pat{pos: 7}
	for i := 0; i < cnt; i++ {
		if _, err := io.ReadFull(c, hdr); err != nil {
			break
		}
		b := p.take(int(binary.BigEndian.Uint32(hdr)), 'w')
		k, err := c.Write(b)
		e := 0
		if err != nil {
			e = 1
		}
		out.ks = append(out.ks, fmt.Sprintf("%d/%d", k, e))
		out.sent = append(out.sent, b...)
	}
	wrRes <- out
}

func execWrite(f []string) string {
	if len(f) != 3 || !strings.HasPrefix(f[1], "v=") || !strings.HasPrefix(f[2], "n=") {
		return "bad-op"
	}
	if _, ok := stdClient[f[1][2:]]; !ok {
		return "bad-op"
	}
	var lens []int
	for _, x := range strings.Split(f[2][2:], ",") {
		var n int
		if _, err := fmt.Sscanf(x, "%d", &n); err != nil || n < 0 || n > 1<<20 {
			return "bad-op"
		}
		lens = append(lens, n)
	}
	for len(wrRes) > 0 {
		<-wrRes
	}
	sc, err := stdtls.Dial("tcp", tlsSrv.Listener.Addr().String(), stdCfg(f[1][2:], "wr"))
	if err != nil {
		return "err:std-dial:" + err.Error()
	}
	defer sc.Close()
	req := make([]byte, 4, 4+4*len(lens))
	binary.BigEndian.PutUint32(req, uint32(len(lens)))
	for _, n := range lens {
		var x [4]byte
		binary.BigEndian.PutUint32(x[:], uint32(n))
		req = append(req, x[:]...)
	}
	if _, err := sc.Write(req); err != nil {
		return "err:write-req"
	}
	sc.SetReadDeadline(time.Now().Add(wait))
	got, _ := io.ReadAll(sc)
	var out wrOut
	select {
	case out = <-wrRes:
	case <-time.After(wait):
		return "err:no-result"
	}
	return fmt.Sprintf("k=%s rcv=%d same=%d", strings.Join(out.ks, ","), len(got), b2i(bytes.Equal(got, out.sent)))
}

// heads with odd header case, a repeated header and an empty value
const upgradeReq = "GET /tunnel?x=1&y=%20z HTTP/1.1\r\nHost: verif.local\r\nupgrade: WebSocket\r\nCONNECTION: keep-alive, Upgrade\r\n" +
	"Sec-WebSocket-Key: dGhlIHNhbXBsZSBub25jZQ==\r\nSec-WebSocket-Version: 13\r\nX-Odd-cASE: VaLuE  one\r\nX-Dup: a\r\nX-Dup: b\r\nX-Empty:\r\n\r\n"
const upgradeRsp = "HTTP/1.1 101 Switching Protocols\r\nupgrade: WebSocket\r\nCONNECTION: Upgrade\r\n" +
	"Sec-WebSocket-Accept: s3pPLMBiTxaQ9kYGzzhZRbK+xOo=\r\nx-odd-Case: VaLuE  two\r\nX-Dup: a\r\nX-Dup: b\r\nSec-WebSocket-Protocol: chat\r\n\r\n"

// readHead reads byte by byte up to and including the first empty line
func readHead(c net.Conn) ([]byte, error) {
	c.SetReadDeadline(time.Now().Add(wait))
	defer c.SetReadDeadline(time.Time{})
	var h []byte
	b := make([]byte, 1)
	for !bytes.HasSuffix(h, []byte("\r\n\r\n")) {
		if _, err := io.ReadFull(c, b); err != nil {
			return h, err
		}
		h = append(h, b[0])
		if len(h) > 8192 {
			return h, fmt.Errorf("head too long")
		}
	}
	return h, nil
}

// headFields: first line and the multiset of "lower(name):trimmed value"
func headFields(h []byte) (string, []string) {
	lines := strings.Split(strings.TrimSuffix(string(h), "\r\n\r\n"), "\r\n")
	var out []string
	for _, l := range lines[1:] {
		i := strings.IndexByte(l, ':')
		if i < 0 {
			out = append(out, "?"+l)
			continue
		}
		out = append(out, strings.ToLower(l[:i])+":"+strings.TrimSpace(l[i+1:]))
	}
	sort.Strings(out)
	return lines[0], out
}

// headPreserved: got carries the first line of sent and every header of sent (same values, same multiplicity);
// returns "ok" or what is missing, and the sorted lower-case names of the headers that were added
func headPreserved(sent, got []byte) (string, string) {
	l1, f1 := headFields(sent)
	l2, f2 := headFields(got)
	if l1 != l2 {
		return "line", ""
	}
	cnt := map[string]int{}
	for _, f := range f2 {
		cnt[f]++
	}
	for _, f := range f1 {
		if cnt[f] == 0 {
			return "missing=" + strings.ReplaceAll(strings.SplitN(f, ":", 2)[0], " ", "_"), ""
		}
		cnt[f]--
	}
	var extra []string
	seen := map[string]bool{}
	for _, f := range f2 {
		if cnt[f] > 0 {
			n := strings.SplitN(f, ":", 2)[0]
			if !seen[n] {
				seen[n] = true
				extra = append(extra, n)
			}
		}
	}
	if len(extra) == 0 {
		return "ok", "-"
	}
	return "ok", strings.Join(extra, "+")
}

var tunnelProtos = map[string]bool{"ws": true, "wss": true, "wss0": true, "tls": true, "tlsr": true,
	"t10c": true, "t11c": true, "t12c": true, "t12g": true}

func isWS(p string) bool { return p == "ws" || p == "wss" || p == "wss0" }

type tunnel struct {
	cli, bk net.Conn
	hs, hx  string // websocket: head preservation verdict, headers added to the 101 response
}

func (t *tunnel) close() {
	if t.cli != nil {
		t.cli.Close()
	}
	if t.bk != nil {
		t.bk.Close()
	} else { // failed before taking the backend connection: do not leave it to the next case
		select {
		case c := <-backendCh:
			c.Close()
		case <-time.After(time.Second):
		}
	}
}

// openTunnel establishes one tunnel through bfe; pc / pb travel with the upgrade request / the 101 response (ws*)
// or directly behind the handshake / on accept (tls*).
func openTunnel(proto string, pc, pb []byte) (*tunnel, string) {
	for len(backendCh) > 0 { // stale backend conns of an earlier failed case
		(<-backendCh).Close()
	}
	t := &tunnel{hs: "-", hx: "-"}
	var err error
	first := pc
	if isWS(proto) {
		first = append([]byte(upgradeReq), pc...)
	}
	switch proto {
	case "ws":
		t.cli, err = net.Dial("tcp", wsL.Addr().String())
		if err != nil {
			return t, "err:dial"
		}
	case "wss":
		cfg := &bfe_tls.Config{InsecureSkipVerify: true, NextProtos: []string{"wss"}}
		t.cli, err = bfe_tls.Dial("tcp", tlsSrv.Listener.Addr().String(), cfg)
		if err != nil {
			return t, "err:tls-dial"
		}
	case "tls":
		cfg := &bfe_tls.Config{InsecureSkipVerify: true, NextProtos: []string{"stream"}}
		t.cli, err = bfe_tls.Dial("tcp", tlsSrv.Listener.Addr().String(), cfg)
		if err != nil {
			return t, "err:tls-dial"
		}
	case "tlsr":
		// RESUMED session (ticket from the priming connection); the client's final handshake flight
		// (ChangeCipherSpec + Finished) is held back and goes out in the SAME write as its first application data
		raw, err := net.Dial("tcp", tlsSrv.Listener.Addr().String())
		if err != nil {
			return t, "err:dial"
		}
		cw := &coalesceConn{Conn: raw, hold: true}
		tc := bfe_tls.Client(cw, resumeCfg)
		t.cli = tc
		raw.SetDeadline(time.Now().Add(wait))
		if err := tc.Handshake(); err != nil {
			return t, "err:tls-handshake:" + err.Error()
		}
		raw.SetDeadline(time.Time{})
		if !tc.ConnectionState().DidResume {
			return t, "err:not-resumed"
		}
		cw.release()
		if len(first) == 0 {
			if err := cw.flush(); err != nil {
				return t, "err:flush"
			}
		}
	default: // crypto/tls client at a fixed version / suite: bfe's client-side conn is a bfe_tls server Conn
		name, alpn := proto, "stream"
		if proto == "wss0" {
			name, alpn = "t10c", "wss"
		}
		cfg := stdCfg(name, alpn)
		sc, err := stdtls.Dial("tcp", tlsSrv.Listener.Addr().String(), cfg)
		if err != nil {
			return t, "err:std-dial:" + err.Error()
		}
		t.cli = sc
		if st := sc.ConnectionState(); st.Version != cfg.MinVersion || st.NegotiatedProtocol != alpn {
			return t, "err:std-negotiation"
		}
	}
	if len(first) > 0 {
		if _, err = t.cli.Write(first); err != nil {
			return t, "err:write-first"
		}
	}
	select {
	case t.bk = <-backendCh:
	case <-time.After(wait):
		return t, "err:no-backend-conn"
	}
	if isWS(proto) {
		rq, err := readHead(t.bk)
		if err != nil {
			return t, "err:backend-head"
		}
		if _, err := t.bk.Write(append([]byte(upgradeRsp), pb...)); err != nil {
			return t, "err:backend-rsp"
		}
		rs, err := readHead(t.cli)
		if err != nil {
			return t, "err:client-head"
		}
		v1, _ := headPreserved([]byte(upgradeReq), rq)
		v2, x2 := headPreserved([]byte(upgradeRsp), rs)
		switch {
		case v1 != "ok":
			t.hs = "req-" + v1
		case v2 != "ok":
			t.hs = "rsp-" + v2
		default:
			t.hs = "ok"
		}
		t.hx = x2
	} else if len(pb) > 0 {
		if _, err := t.bk.Write(pb); err != nil {
			return t, "err:write-pb"
		}
	}
	return t, ""
}

type halfCloser interface{ CloseWrite() error }

func halfClose(c net.Conn) {
	if h, ok := c.(halfCloser); ok {
		h.CloseWrite()
		return
	}
	c.Close()
}

func exec(op string) string {
	once.Do(setup)
	f := strings.Split(op, ";")
	if f[0] == "wr" {
		return execWrite(f)
	}
	if f[0] == "big" {
		return execBig(f)
	}
	if len(f) != 4 || !tunnelProtos[f[0]] || !strings.HasPrefix(f[1], "pc=") ||
		!strings.HasPrefix(f[2], "pb=") || !strings.HasPrefix(f[3], "s=") {
		return "bad-op"
	}
	pc, ok1 := vh.UnHex(f[1][3:])
	pb, ok2 := vh.UnHex(f[2][3:])
	if !ok1 || !ok2 {
		return "bad-op"
	}
	type step struct {
		kind string
		data []byte
	}
	var steps []step
	if f[3][2:] != "-" {
		for _, s := range strings.Split(f[3][2:], ",") {
			switch {
			case s == "xc" || s == "xb" || s == "hc" || s == "hb":
				steps = append(steps, step{kind: s})
			case len(s) >= 2 && s[1] == ':' && strings.ContainsRune("cbCB", rune(s[0])):
				d, ok := vh.UnHex(s[2:])
				if !ok {
					return "bad-op"
				}
				steps = append(steps, step{kind: s[:1], data: d})
			default:
				return "bad-op"
			}
		}
	}
	t, e := openTunnel(f[0], pc, pb)
	defer t.close()
	if e != "" {
		return e
	}
	cli, bk := t.cli, t.bk
	cc, bc := newCollector(), newCollector()
	go cc.run(cli, nil)
	go bc.run(bk, nil)
	sentC, sentB := len(pc), len(pb)
	closed := ""
	for _, s := range steps {
		switch s.kind {
		case "c", "C":
			if _, err := cli.Write(s.data); err != nil {
				closed = "c" // the tunnel is gone: stop the script, report what arrived
				break
			}
			sentC += len(s.data)
			if s.kind == "C" && !bc.waitFor(func() bool { return len(bc.buf) >= sentC || bc.done }) {
				closed = "c"
			}
		case "b", "B":
			if _, err := bk.Write(s.data); err != nil {
				closed = "b"
				break
			}
			sentB += len(s.data)
			if s.kind == "B" && !cc.waitFor(func() bool { return len(cc.buf) >= sentB || cc.done }) {
				closed = "b"
			}
		case "xc", "hc": // the client has seen everything sent to it so far, then closes; its own bytes may be in flight
			cc.waitFor(func() bool { return len(cc.buf) >= sentB || cc.done })
			if s.kind == "hc" {
				halfClose(cli)
			} else {
				cli.Close()
			}
			closed = "c"
		case "xb", "hb":
			bc.waitFor(func() bool { return len(bc.buf) >= sentC || bc.done })
			if s.kind == "hb" {
				halfClose(bk)
			} else {
				bk.Close()
			}
			closed = "b"
		}
		if closed != "" {
			break
		}
	}
	if closed == "" { // script without close: let everything arrive, then the client closes
		cc.waitFor(func() bool { return len(cc.buf) >= sentB || cc.done })
		bc.waitFor(func() bool { return len(bc.buf) >= sentC || bc.done })
		cli.Close()
	}
	// both sides must see the end of the tunnel
	cdone := cc.waitFor(func() bool { return cc.done })
	bdone := bc.waitFor(func() bool { return bc.done })
	cc.mu.Lock()
	bc.mu.Lock()
	res := fmt.Sprintf("B=%s C=%s bclosed=%d cclosed=%d", vh.Hex(bc.buf), vh.Hex(cc.buf), b2i(bdone), b2i(cdone))
	bc.mu.Unlock()
	cc.mu.Unlock()
	if isWS(f[0]) {
		res += " hs=" + t.hs + " x=" + t.hx
	}
	return res
}

// ---------------------------------------------------------------------------------------------
// big transfers with back-pressure: `big;p=<proto>;c=<n>;b=<n>;slow=<c|b|->;x=<c|b>`
// Each side writes n patterned bytes (64 KiB writes); each receiver checks the pattern while reading.  The `slow`
// side starts reading only when the opposite direction is complete and its peer has written 1 MiB, so for transfers
// larger than the socket buffers the relay's Write towards it must block and resume (no timing in the verdict).

func bigPat(off int, salt byte) byte {
	x := uint32(off)*2654435761 + uint32(salt)*97
	return byte(x>>24) ^ byte(off)
}

type bigRecv struct {
	mu   sync.Mutex
	cond *sync.Cond
	n    int
	bad  int
	end  bool
}

func newBigRecv() *bigRecv { r := &bigRecv{bad: -1}; r.cond = sync.NewCond(&r.mu); return r }

func (res *bigRecv) read(r io.Reader, salt byte, gate <-chan struct{}, small bool) {
	if gate != nil {
		<-gate
	}
	sz := 64 * 1024
	if small {
		sz = 4096
	}
	buf := make([]byte, sz)
	for {
		n, err := r.Read(buf)
		res.mu.Lock()
		for i := 0; i < n; i++ {
			if res.bad < 0 && buf[i] != bigPat(res.n+i, salt) {
				res.bad = res.n + i
			}
		}
		res.n += n
		if err != nil {
			res.end = true
		}
		res.cond.Broadcast()
		res.mu.Unlock()
		if err != nil {
			return
		}
	}
}

// waitFor blocks until pred holds or the watchdog fires
func (res *bigRecv) waitFor(d time.Duration, pred func() bool) bool {
	deadline := time.Now().Add(d)
	t := time.AfterFunc(d, func() { res.mu.Lock(); res.cond.Broadcast(); res.mu.Unlock() })
	defer t.Stop()
	res.mu.Lock()
	defer res.mu.Unlock()
	for !pred() {
		if time.Now().After(deadline) {
			return false
		}
		res.cond.Wait()
	}
	return true
}

func bigWrite(w io.Writer, n int, salt byte, mark chan<- struct{}, fin chan<- error) {
	buf := make([]byte, 64*1024)
	marked := false
	for off := 0; off < n; {
		k := len(buf)
		if n-off < k {
			k = n - off
		}
		for i := 0; i < k; i++ {
			buf[i] = bigPat(off+i, salt)
		}
		if _, err := w.Write(buf[:k]); err != nil {
			if !marked && mark != nil {
				close(mark)
			}
			fin <- err
			return
		}
		off += k
		if !marked && mark != nil && off >= 1<<20 {
			close(mark)
			marked = true
		}
	}
	if !marked && mark != nil {
		close(mark)
	}
	fin <- nil
}

func execBig(f []string) string {
	kv := map[string]string{}
	for _, x := range f[1:] {
		p := strings.SplitN(x, "=", 2)
		if len(p) != 2 {
			return "bad-op"
		}
		kv[p[0]] = p[1]
	}
	var nc, nb int
	if _, err := fmt.Sscanf(kv["c"], "%d", &nc); err != nil || nc < 0 || nc > 1<<28 {
		return "bad-op"
	}
	if _, err := fmt.Sscanf(kv["b"], "%d", &nb); err != nil || nb < 0 || nb > 1<<28 {
		return "bad-op"
	}
	par := 1 // k=<n>: n tunnels of the same shape in flight at the same time, each with its own byte pattern
	if v, ok := kv["k"]; ok {
		if _, err := fmt.Sscanf(v, "%d", &par); err != nil || par < 1 || par > 4 {
			return "bad-op"
		}
		delete(kv, "k")
	}
	slow, closer := kv["slow"], kv["x"]
	if !tunnelProtos[kv["p"]] || (slow != "c" && slow != "b" && slow != "-") || (closer != "c" && closer != "b") || len(kv) != 5 {
		return "bad-op"
	}
	// tunnels are opened one after the other (so that each gets its own backend connection), then run concurrently
	var ts []*tunnel
	defer func() {
		for _, t := range ts {
			t.close()
		}
	}()
	for i := 0; i < par; i++ {
		t, e := openTunnel(kv["p"], nil, nil)
		ts = append(ts, t)
		if e != "" {
			return e
		}
	}
	out := make([]string, par)
	var wg sync.WaitGroup
	for i, t := range ts {
		wg.Add(1)
		go func(i int, t *tunnel) {
			defer wg.Done()
			out[i] = runBig(t, kv["p"], nc, nb, slow, closer, byte(i))
		}(i, t)
	}
	wg.Wait()
	for i := 1; i < par; i++ {
		if out[i] != out[0] {
			return fmt.Sprintf("par-differ[%d]:%s", i, strings.ReplaceAll(out[i], " ", "_")) + " " + out[0]
		}
	}
	return out[0]
}

func runBig(t *tunnel, proto string, nc, nb int, slow, closer string, shift byte) string {
	sc, sb := 'c'+shift*7, 'b'+shift*7 // per-tunnel patterns: cross-talk between concurrent tunnels shows as bad@offset
	// client receives the backend's stream (salt sb), backend receives the client's (salt sc)
	rc, rb := newBigRecv(), newBigRecv()
	cWrote, bWrote := make(chan struct{}), make(chan struct{}) // closed when that side has written 1 MiB (or all)
	cFin, bFin := make(chan error, 1), make(chan error, 1)
	fastDone := make(chan struct{})
	var cGate, bGate chan struct{}
	if slow == "c" {
		cGate = make(chan struct{})
		go func() { <-bWrote; <-fastDone; close(cGate) }()
	} else if slow == "b" {
		bGate = make(chan struct{})
		go func() { <-cWrote; <-fastDone; close(bGate) }()
	}
	go rc.read(t.cli, sb, cGate, slow == "c")
	go rb.read(t.bk, sc, bGate, slow == "b")
	go bigWrite(t.cli, nc, sc, cWrote, cFin)
	go bigWrite(t.bk, nb, sb, bWrote, bFin)
	// the fast direction completes first (its receiver has everything), which releases the late reader
	if slow == "c" {
		rb.waitFor(4*wait, func() bool { return rb.n >= nc || rb.end })
	} else if slow == "b" {
		rc.waitFor(4*wait, func() bool { return rc.n >= nb || rc.end })
	}
	close(fastDone)
	// everything must have ARRIVED before a side closes (otherwise the close would legitimately cut the tail)
	rc.waitFor(4*wait, func() bool { return rc.n >= nb || rc.end })
	rb.waitFor(4*wait, func() bool { return rb.n >= nc || rb.end })
	if closer == "c" {
		halfClose(t.cli)
	} else {
		halfClose(t.bk)
	}
	rc.waitFor(wait, func() bool { return rc.end })
	rb.waitFor(wait, func() bool { return rb.end })
	rc.mu.Lock()
	rb.mu.Lock()
	defer rc.mu.Unlock()
	defer rb.mu.Unlock()
	fm := func(r *bigRecv) string {
		if r.bad >= 0 {
			return fmt.Sprintf("%d/bad@%d", r.n, r.bad)
		}
		return fmt.Sprintf("%d/ok", r.n)
	}
	res := fmt.Sprintf("B=%s C=%s bclosed=%d cclosed=%d", fm(rb), fm(rc), b2i(rb.end), b2i(rc.end))
	if isWS(proto) {
		res += " hs=" + t.hs + " x=" + t.hx
	}
	return res
}

func b2i(b bool) int {
	if b {
		return 1
	}
	return 0
}

// ---------------------------------------------------------------------------------------------
// generator: patterned payloads (position-dependent bytes, so loss / duplication / reordering changes the stream)

type pat struct{ pos uint32 }

func (p *pat) take(n int, salt byte) []byte {
	b := make([]byte, n)
	for i := range b {
		x := p.pos*2654435761 + uint32(salt)*97
		b[i] = byte(x>>24) ^ byte(p.pos)
		p.pos++
	}
	return b
}

func size(r *vh.Rand) int {
	switch r.Intn(10) {
	case 0:
		return 1
	case 1:
		return r.Range(4090, 4100) // around the bufio buffer
	case 2:
		return r.Range(32760, 32780) // around io.Copy's 32 KiB buffer
	case 3:
		if vh.Thorough || r.Chance(1, 6) {
			return r.Range(40000, 90000)
		}
		return r.Range(16380, 16390) // around one TLS record
	case 4, 5:
		return r.Range(100, 3000)
	}
	return r.Range(1, 64)
}

var stdNames = []string{"t10c", "t10c", "t11c", "t12c", "t12g"}

func genWrite(r *vh.Rand) string {
	k := r.Range(1, 4)
	var ns []string
	for i := 0; i < k; i++ {
		n := 0
		switch r.Intn(8) {
		case 0:
			n = r.Intn(3)
		case 1:
			n = r.Range(16380, 16390) // around maxPlaintext
		case 2:
			if vh.Thorough {
				n = r.Range(32760, 32775)
			} else {
				n = r.Range(2, 40)
			}
		case 3:
			if vh.Thorough {
				n = r.Range(16384, 70000)
			} else {
				n = r.Range(2, 4000)
			}
		default:
			n = r.Range(2, 4000)
		}
		ns = append(ns, fmt.Sprint(n))
	}
	return fmt.Sprintf("wr;v=%s;n=%s", stdNames[r.Intn(len(stdNames))], strings.Join(ns, ","))
}

var allProtos = []string{"ws", "wss", "wss0", "tls", "tlsr", "t10c", "t11c", "t12c", "t12g"}

func genBig(r *vh.Rand) string {
	mb := func() int {
		switch r.Intn(4) {
		case 0:
			return r.Intn(2000)
		case 1:
			return r.Range(1<<20, 4<<20)
		}
		return r.Range(8<<20, 24<<20) // beyond what the socket buffers of both hops can hold
	}
	k := ""
	if r.Chance(1, 2) {
		k = fmt.Sprintf(";k=%d", r.Range(2, 3)) // concurrent tunnels
	}
	return fmt.Sprintf("big;p=%s;c=%d;b=%d;slow=%s;x=%s%s", allProtos[r.Intn(len(allProtos))], mb(), mb(),
		r.Pick("c", "b", "-"), r.Pick("c", "b"), k)
}

// quick tier: mostly plain websocket / bfe_tls tunnels with moderate sizes; the crypto/tls-client variants, wss, the
// large Write lengths and the big transfers are mostly left to the thorough tier (a deterministic set of them runs
// in every tier, see pre)
func gen(r *vh.Rand) string {
	if vh.Thorough {
		if r.Chance(1, 8) {
			return genWrite(r)
		}
		if r.Chance(1, 10) {
			return genBig(r)
		}
	} else if r.Chance(1, 24) {
		return genWrite(r)
	}
	proto := "ws"
	k20 := r.Intn(20)
	if vh.Thorough {
		switch {
		case k20 < 3:
			proto = "tls"
		case k20 < 7:
			proto = "tlsr"
		case k20 < 11:
			proto = stdNames[r.Intn(len(stdNames))]
		case k20 < 13:
			proto = "wss"
		case k20 < 15:
			proto = "wss0"
		}
	} else {
		switch {
		case k20 < 3:
			proto = "tls"
		case k20 < 7:
			proto = "tlsr"
		case k20 < 9:
			proto = stdNames[r.Intn(len(stdNames))]
		case k20 < 11:
			proto = "wss"
		case k20 < 12:
			proto = "wss0"
		}
	}
	_, std := stdClient[proto]
	std = std || proto == "wss0"
	pc, pb := &pat{}, &pat{pos: 1 << 20}
	var pcb, pbb []byte
	if r.Chance(2, 3) {
		n := size(r)
		if isWS(proto) && r.Chance(1, 2) {
			n = r.Range(3600, 4200) // fill the request's bufio buffer: request (~300 bytes) + pipelined data around 4096
		}
		pcb = pc.take(n, 'c')
	}
	if proto == "tlsr" && len(pcb) == 0 && !r.Chance(1, 6) {
		pcb = pc.take(size(r), 'c')
	}
	if r.Chance(2, 3) {
		n := size(r)
		if isWS(proto) && r.Chance(1, 2) {
			n = r.Range(3800, 4200)
		}
		pbb = pb.take(n, 'b')
	}
	var steps []string
	k := r.Intn(7)
	if std && k < 3 {
		k = r.Range(3, 6)
	}
	for i := 0; i < k; i++ {
		// rounds (C:/B:) keep writes apart so that each is relayed by its own Read/Write; always for the std-client variants
		sync := std || r.Chance(1, 4)
		if r.Bool() && !(std && i < 2) {
			if sync {
				steps = append(steps, "C:"+vh.Hex(pc.take(size(r), 'c')))
			} else {
				steps = append(steps, "c:"+vh.Hex(pc.take(size(r), 'c')))
			}
		} else if sync {
			steps = append(steps, "B:"+vh.Hex(pb.take(size(r)+1, 'b')))
		} else {
			steps = append(steps, "b:"+vh.Hex(pb.take(size(r), 'b')))
		}
	}
	switch r.Intn(6) {
	case 0:
		steps = append(steps, "xc")
	case 1:
		steps = append(steps, "xb")
	case 2:
		steps = append(steps, "hc") // half-close: CloseWrite, keep reading
	case 3:
		steps = append(steps, "hb")
	}
	s := "-"
	if len(steps) > 0 {
		s = strings.Join(steps, ",")
	}
	return fmt.Sprintf("%s;pc=%s;pb=%s;s=%s", proto, vh.Hex(pcb), vh.Hex(pbb), s)
}

// pre: the deterministic set that runs in every tier
func pre(emit func(string), thorough bool) {
	// several backend rounds towards a client whose conn inside bfe is a bfe_tls server Conn (1/n-1 split at TLS 1.0)
	for i, p := range []string{"t10c", "wss0", "ws", "tls", "t11c", "t12c", "t12g", "wss"} {
		emit(p + ";pc=0102;pb=0a0b0c;s=B:0d0e0f,C:06,B:1112,B:131415161718,C:07,xc")
		if i < 4 || thorough { // half-closes in both directions: four representative protos in the quick tier
			emit(p + ";pc=-;pb=-;s=B:0d0e,B:0f10,hb")
			emit(p + ";pc=01;pb=-;s=C:0203,hc")
		}
	}
	// io.Writer contract at the record boundaries
	for _, v := range []string{"t10c", "t11c", "t12c", "t12g"} {
		emit("wr;v=" + v + ";n=0,1,2,3,16383,16384,16385,16386,32768,32769")
	}
	// back-pressure: more than the socket buffers hold, late reader on either side
	emit("big;p=ws;c=1000;b=12000000;slow=c;x=c")
	emit("big;p=tls;c=12000000;b=1000;slow=b;x=b")
	// three tunnels in flight at once, each with its own pattern (no cross-talk through shared buffers)
	emit("big;p=ws;c=3000000;b=3000000;slow=-;x=c;k=3")
	emit("big;p=t10c;c=2000000;b=2000000;slow=c;x=b;k=2")
	if thorough {
		emit("big;p=wss0;c=30000000;b=30000000;slow=c;x=b")
		emit("big;p=t10c;c=40000000;b=100;slow=b;x=c")
		emit("big;p=tlsr;c=100;b=40000000;slow=c;x=c")
	}
}

func main() {
	vh.Pre = pre
	vh.Main(gen, exec)
}
