package main

// Stream `lh`: reload HISTORIES through the real loader.  Configuration FILES (server_cert_conf.json with PEM certificates,
// tls_rule_conf.json, client CA directory) are written to a scratch directory and loaded with the production
// (*BfeServer).tlsConfLoad (ServerCertConfLoad, ServerCertParse, TlsRuleConfLoad + BfeTlsRuleConfCheck, ClientCALoad,
// ClientCRLLoad, CheckTlsConf, MultiCertMap.Update, TLSServerRuleMap.Update) — several times on ONE server.
//
//	lh <certs> <conf1|conf2|…> <script>
//	   certs   NAME=dns+dns;…   (the certificate D is the default one)
//	   conf    product;product…  product = name:grade:ca:chacha:protos:cert:vips:snis  (lists `+`-joined, `-` = empty)
//	           ca = 0 | A | B (ClientAuth with that CA file) | X (CA file missing) | E (ClientAuth, empty ClientCAName)
//	           or `!json` (not JSON) | `!nover` (no Version)
//	   script  `,`-separated:  L<i>            load conf i                                  → ok | rej
//	                           G:<vip>:<sni>   which rule and which certificate govern        → g= ca= cn= ch= cert=
//	                           N:<vip>:<sni>:<vers>   readClientHello of a fixed hello through the server's maps
//	                           N!<i>:<vip>:<sni>:<vers>  same, and conf i is loaded from INSIDE ServerRule.Get (a reload that
//	                                                     lands between the rule lookup and its use)     → negotiation result
// An invalid configuration must be rejected and leave the previous state fully in force; an accepted one must replace it
// entirely (no entry of the old one survives).

import (
	"crypto/ecdsa"
	"crypto/elliptic"
	"crypto/rand"
	"crypto/x509"
	"crypto/x509/pkix"
	"encoding/json"
	"encoding/pem"
	"fmt"
	"math/big"
	"net"
	"os"
	"path/filepath"
	"strconv"
	"strings"
	"sync"
	"time"

	x "bfeverif/harness/internal/c4xtls"
	"bfeverif/harness/internal/vh"
	"github.com/bfenetworks/bfe/bfe_server"
	"github.com/bfenetworks/bfe/bfe_tls"
)

type pemPair struct{ cert, key []byte }

var (
	pemMu    sync.Mutex
	pemCache = map[string]pemPair{}
)

// certificate + key in PEM for a list of DNS names; CommonName = the certificate's NAME in the configuration
func pemFor(name string, dns []string) (pemPair, error) {
	pemMu.Lock()
	defer pemMu.Unlock()
	key := name + "=" + strings.Join(dns, "+")
	if p, ok := pemCache[key]; ok {
		return p, nil
	}
	k, err := ecdsa.GenerateKey(elliptic.P256(), rand.Reader)
	if err != nil {
		return pemPair{}, err
	}
	t := &x509.Certificate{SerialNumber: big.NewInt(int64(len(pemCache) + 10)), Subject: pkix.Name{Organization: []string{name}},
		NotBefore: time.Unix(1600000000, 0), NotAfter: time.Unix(4000000000, 0), DNSNames: dns}
	der, err := x509.CreateCertificate(rand.Reader, t, t, &k.PublicKey, k)
	if err != nil {
		return pemPair{}, err
	}
	kb, err := x509.MarshalECPrivateKey(k)
	if err != nil {
		return pemPair{}, err
	}
	p := pemPair{pem.EncodeToMemory(&pem.Block{Type: "CERTIFICATE", Bytes: der}),
		pem.EncodeToMemory(&pem.Block{Type: "EC PRIVATE KEY", Bytes: kb})}
	pemCache[key] = p
	return p, nil
}

func plusList(s string) []string {
	if s == "-" {
		return nil
	}
	return strings.Split(s, "+")
}

type lhRule struct {
	VipConf       []string
	SniConf       []string
	CertName      string
	NextProtos    []string
	Grade         string
	ClientAuth    bool
	ClientCAName  string
	Chacha20      bool
	DynamicRecord bool
}

func writeRuleConf(path, conf string) error {
	switch conf {
	case "!json":
		return os.WriteFile(path, []byte("{ this is not json"), 0600)
	}
	cfg := map[string]*lhRule{}
	version := "v1"
	if conf == "!nover" {
		version = ""
		conf = "P1:C:0:0:http/1.1:D:-:-"
	}
	for _, p := range strings.Split(conf, ";") {
		q := strings.Split(p, ":")
		// IPv6 vips contain colons: the vips field is everything between field 6 and the last field
		if len(q) < 8 {
			return fmt.Errorf("bad product %q", p)
		}
		vips := strings.Join(q[6:len(q)-1], ":")
		r := &lhRule{Grade: q[1], Chacha20: q[3] == "1", NextProtos: plusList(q[4]), CertName: q[5],
			VipConf: plusList(vips), SniConf: plusList(q[len(q)-1])}
		switch q[2] {
		case "0":
		case "E":
			r.ClientAuth = true
		default:
			r.ClientAuth, r.ClientCAName = true, q[2]
		}
		cfg[q[0]] = r
	}
	b, err := json.Marshal(map[string]interface{}{"Version": version, "Config": cfg})
	if err != nil {
		return err
	}
	return os.WriteFile(path, b, 0600)
}

// a ServerRule that performs a reload right after the real lookup has returned
type reloadingRule struct {
	inner  bfe_tls.ServerRule
	reload func()
	done   bool
}

func (r *reloadingRule) Get(c *bfe_tls.Conn) *bfe_tls.Rule {
	rule := r.inner.Get(c)
	if !r.done {
		r.done = true
		r.reload()
	}
	return rule
}

func execLh(f []string) string {
	if len(f) != 4 || x.PKIErr() != nil {
		return "bad-op"
	}
	dir, err := os.MkdirTemp("/var/tmp", "c41lh-")
	if err != nil {
		return "bad-tmp"
	}
	defer os.RemoveAll(dir)
	caDir, crlDir := filepath.Join(dir, "client_ca"), filepath.Join(dir, "client_crl")
	os.MkdirAll(caDir, 0700)
	os.MkdirAll(crlDir, 0700)
	for _, n := range []string{"A", "B"} {
		os.WriteFile(filepath.Join(caDir, n+".crt"), x.CAPEM(n), 0600)
	}
	// certificates
	certConf := map[string]map[string]string{}
	cnOf := map[string]string{}
	for _, e := range strings.Split(f[1], ";") {
		i := strings.IndexByte(e, '=')
		if i <= 0 {
			return "bad-op"
		}
		name := e[:i]
		p, err := pemFor(name, strings.Split(e[i+1:], "+"))
		if err != nil {
			return "bad-certs"
		}
		cf, kf := filepath.Join(dir, name+".crt"), filepath.Join(dir, name+".key")
		os.WriteFile(cf, p.cert, 0600)
		os.WriteFile(kf, p.key, 0600)
		certConf[name] = map[string]string{"ServerCertFile": cf, "ServerKeyFile": kf}
		cnOf[name] = name
	}
	certFile := filepath.Join(dir, "server_cert_conf.json")
	b, _ := json.Marshal(map[string]interface{}{"Version": "c1", "Config": map[string]interface{}{"Default": "D", "CertConf": certConf}})
	os.WriteFile(certFile, b, 0600)
	confs := strings.Split(f[2], "|")
	ruleFile := func(i int) string { return filepath.Join(dir, fmt.Sprintf("tls_rule_%d.json", i)) }
	for i, c := range confs {
		if err := writeRuleConf(ruleFile(i+1), c); err != nil {
			return "bad-op"
		}
	}
	srv := bfe_server.VerifC41NewTLSServer(dir, caDir, crlDir)
	load := func(i int) string {
		if i < 1 || i > len(confs) {
			return "rej"
		}
		if err := srv.TLSConfLoad(certFile, ruleFile(i)); err != nil {
			return "rej"
		}
		return "ok"
	}
	vipOf := func(s string) net.IP {
		if s == "-" {
			return nil
		}
		return net.ParseIP(s)
	}
	var out []string
	for _, it := range strings.Split(f[3], ",") {
		switch {
		case strings.HasPrefix(it, "L"):
			i, err := strconv.Atoi(it[1:])
			if err != nil {
				return "bad-op"
			}
			out = append(out, load(i))
		case strings.HasPrefix(it, "G:"):
			q := strings.Split(it[2:], "/")
			if len(q) != 2 {
				return "bad-op"
			}
			conn := bfe_tls.VerifC41ConnFor(vipOf(q[0]), dashStr(q[1]))
			rule := srv.ServerRule().Get(conn)
			cert := srv.MultiCert().Get(conn)
			cname := "none"
			if cert != nil && len(cert.Certificate) > 0 {
				if xc, err := x509.ParseCertificate(cert.Certificate[0]); err == nil && len(xc.Subject.Organization) == 1 {
					cname = xc.Subject.Organization[0]
				}
			}
			cn := rule.ClientCAName
			if cn == "" {
				cn = "-"
			}
			out = append(out, fmt.Sprintf("g=%s ca=%s cn=%s ch=%s cert=%s", rule.Grade, x.B01(rule.ClientAuth), cn, x.B01(rule.Chacha20), cname))
		case strings.HasPrefix(it, "N"):
			body := it[1:]
			reloadTo := 0
			if strings.HasPrefix(body, "!") {
				j := strings.IndexByte(body, ':')
				if j < 0 {
					return "bad-op"
				}
				reloadTo, _ = strconv.Atoi(body[1:j])
				body = body[j:]
			}
			q := strings.Split(strings.TrimPrefix(body, ":"), "/")
			if len(q) != 3 {
				return "bad-op"
			}
			vers, err := strconv.ParseUint(q[2], 16, 16)
			if err != nil {
				return "bad-op"
			}
			if !srv.Loaded() {
				out = append(out, "noconf")
				continue
			}
			var sr bfe_tls.ServerRule = srv.ServerRule()
			if reloadTo > 0 {
				sr = &reloadingRule{inner: srv.ServerRule(), reload: func() { load(reloadTo) }}
			}
			cfg := &bfe_tls.Config{Rand: x.ZeroReader{}, SessionTicketKey: x.TicketKey(), ServerRule: sr, MultiCert: srv.MultiCert(),
				Certificates: []bfe_tls.Certificate{bfe_tls.VerifC41DummyCert(true)}}
			h := &bfe_tls.VerifC41Hello{Vers: uint16(vers), Suites: []uint16{0xcca9, 0xc02b, 0xc009}, Compression: []uint8{0},
				Curves: []uint16{23}, Points: []uint8{0}, ALPN: []string{"h2", "spdy/3.1", "http/1.1"}, ServerName: dashStr(q[1]), Vip: vipOf(q[0])}
			out = append(out, strings.ReplaceAll(renderNego(bfe_tls.VerifC41ReadClientHello(cfg, h)), " ", ";"))
		default:
			return "bad-op"
		}
	}
	return strings.Join(out, ",")
}

func joinPlus(xs []string) string {
	if len(xs) == 0 {
		return "-"
	}
	return strings.Join(xs, "+")
}

// ---- generator ------------------------------------------------------------------------------------

var lhCerts = "C1=a.example.com+www.a.example.com;C2=*.b.example.com+b.example.com;C3=*.c.test;D=default.test"
var lhCertNames = map[string][]string{"C1": {"a.example.com", "www.a.example.com"}, "C2": {"x.b.example.com", "y.b.example.com", "b.example.com", "X.b.example.com"},
	"C3": {"deep.c.test", "w.c.test"}, "D": {"default.test"}}
var lhVips = []string{"10.0.0.1", "10.0.0.2", "2001:db8::1", "2001:DB8::1", "::ffff:10.0.0.3"}
var lhConnVips = []string{"10.0.0.1", "10.0.0.2", "2001:db8::1", "10.0.0.3", "10.9.9.9"}

func genLhConf(r *vh.Rand, clean bool) string {
	k := r.Intn(25)
	if clean {
		k = 9
	}
	switch k {
	case 0:
		return "!json"
	case 1:
		return "!nover"
	}
	n := r.Range(1, 3)
	defect := -1
	if !clean && r.Chance(1, 3) {
		defect = r.Intn(9)
	}
	usedVip := map[string]bool{}
	usedSni := map[string]bool{}
	var ps []string
	var firstVips, firstSnis []string
	firstCert := ""
	for i := 0; i < n; i++ {
		cert := r.Pick("C1", "C2", "C3", "D")
		grade := r.Pick("A+", "A", "B", "C", "C", "a+", "b", "-")
		if grade == "-" {
			grade = ""
		}
		ca := r.Pick("0", "0", "0", "A", "B")
		protos := r.Pick("-", "http/1.1", "h2+http/1.1", "h2+spdy/3.1+http/1.1", "spdy/3.1+http/1.1")
		var vips, snis []string
		for _, v := range lhVips {
			c := strings.ToLower(strings.TrimPrefix(v, "::ffff:"))
			if r.Chance(1, 4) && !usedVip[c] {
				usedVip[c] = true
				vips = append(vips, v)
			}
		}
		for _, s := range lhCertNames[cert] {
			if r.Chance(1, 2) && !usedSni[strings.ToLower(s)] {
				usedSni[strings.ToLower(s)] = true
				snis = append(snis, s)
			}
		}
		if i == 0 {
			switch defect {
			case 0:
				cert = "CX" // unknown certificate
			case 1:
				grade = "Z"
			case 2:
				ca = "E"
			case 3:
				ca = "X"
			case 4:
				protos = "h2" // no http/1.1
			case 5:
				protos = "h3+http/1.1"
			case 6:
				snis = append(snis, "other.invalid") // not covered by the certificate
			case 7:
				vips = append(vips, "bad.ip")
			}
		}
		if i == 1 && defect == 8 { // something of the first product repeated in the second / a duplicated proto
			switch {
			case len(firstVips) > 0:
				vips = append(vips, firstVips[0])
			case len(firstSnis) > 0 && cert == firstCert:
				snis = append(snis, firstSnis[0])
			default:
				protos = "h2+h2+http/1.1"
			}
		}
		if i == 0 {
			firstVips, firstSnis, firstCert = vips, snis, cert
		}
		ps = append(ps, strings.Join([]string{"P" + strconv.Itoa(i+1), grade, ca, x.B01(r.Bool()), protos, cert, joinPlus(vips), joinPlus(snis)}, ":"))
	}
	return strings.Join(ps, ";")
}

func genLh(r *vh.Rand) string {
	nc := r.Range(2, 4)
	var confs []string
	for i := 0; i < nc; i++ {
		confs = append(confs, genLhConf(r, i == 0 && r.Chance(5, 6)))
	}
	pickSni := func() string {
		all := []string{"a.example.com", "www.a.example.com", "x.b.example.com", "b.example.com", "deep.c.test", "default.test", "A.EXAMPLE.COM", "x.b.example.com.", "unknown.test", "-"}
		return all[r.Intn(len(all))]
	}
	pickVip := func() string {
		if r.Chance(1, 2) {
			return "-"
		}
		return lhConnVips[r.Intn(len(lhConnVips))]
	}
	var sc []string
	for i, n := 0, r.Range(4, 10); i < n; i++ {
		switch r.Intn(8) {
		case 0, 1:
			sc = append(sc, "L"+strconv.Itoa(r.Range(1, nc)))
		case 2, 3, 4:
			sc = append(sc, "G:"+pickVip()+"/"+pickSni())
		case 5, 6:
			sc = append(sc, "N:"+pickVip()+"/"+pickSni()+"/"+r.Pick("0301", "0302", "0303"))
		default:
			sc = append(sc, "N!"+strconv.Itoa(r.Range(1, nc))+":"+pickVip()+"/"+pickSni()+"/"+r.Pick("0301", "0303"))
		}
	}
	if !strings.HasPrefix(sc[0], "L") && r.Chance(3, 4) {
		sc = append([]string{"L1"}, sc...)
	}
	return "lh " + lhCerts + " " + strings.Join(confs, "|") + " " + strings.Join(sc, ",")
}
