package main

// Streams about WHICH rule / certificate / client-certificate policy governs a connection:
//
//	rl <products> <vipmap> <snimap> <vip> <sni>      TLSServerRuleMap (bfe_server): Update(conf) then Get(conn)
//	     products = P1:A:1:0;P2:B+:0:1 …  (name:grade:clientAuth:chacha20), maps = key=P,… , `-` = empty / absent
//	     → `<product|default> g=<grade> ca=<0|1> ch=<0|1>`
//	cl <certs> <vipmap> <vip> <sni>                  MultiCertMap (bfe_server): Update(certs, rules) then Get(conn)
//	     certs = NAME=dns1|dns2;…  (must contain BFE_DEFAULT_CERT), vipmap = vip=NAME,…      → certificate name
//	cn <ncerts> <n2c> <name>                         (*bfe_tls.Config).getCertificateForName → index
//	ca <cfgPolicy> <ruleCA> <cfgPool> <rulePool> <client> <vers>
//	     a complete handshake with Go's crypto/tls client presenting: none | A | B (leaf issued by CA A / B, EKU
//	     clientAuth) | noeku (issued by A, no EKU) | srvonly (issued by A, EKU serverAuth) | self (self-signed)
//	     → `srv=ok certs=<n> cli=ok` | `srv=err cli=err alert=<n>`

import (
	"crypto/ecdsa"
	"crypto/elliptic"
	"crypto/rand"
	"crypto/tls"
	"crypto/x509"
	"crypto/x509/pkix"
	"fmt"
	"math/big"
	"net"
	"sort"
	"strconv"
	"strings"
	"sync"
	"time"

	x "bfeverif/harness/internal/c4xtls"
	"bfeverif/harness/internal/vh"
	"github.com/bfenetworks/bfe/bfe_config/bfe_tls_conf/tls_rule_conf"
	"github.com/bfenetworks/bfe/bfe_server"
	"github.com/bfenetworks/bfe/bfe_tls"
)

type kv struct{ k, v string }

func parseMap(s string) ([]kv, bool) {
	if s == "-" {
		return nil, true
	}
	var out []kv
	for _, e := range strings.Split(s, ",") {
		i := strings.LastIndexByte(e, '=')
		if i <= 0 {
			return nil, false
		}
		out = append(out, kv{e[:i], e[i+1:]})
	}
	return out, true
}

func dashStr(s string) string {
	if s == "-" {
		return ""
	}
	return s
}

func execRl(f []string) string {
	if len(f) != 6 {
		return "bad-op"
	}
	conf := tls_rule_conf.BfeTlsRuleConf{Version: "v", Config: tls_rule_conf.TlsRuleMap{}}
	for _, p := range strings.Split(f[1], ";") {
		q := strings.Split(p, ":")
		if len(q) != 4 {
			return "bad-op"
		}
		conf.Config[q[0]] = &tls_rule_conf.TlsRuleConf{CertName: "c", Grade: q[1], ClientAuth: q[2] == "1",
			ClientCAName: q[0], Chacha20: q[3] == "1", NextProtos: []string{"http/1.1"}}
	}
	vm, ok1 := parseMap(f[2])
	sm, ok2 := parseMap(f[3])
	if !ok1 || !ok2 {
		return "bad-op"
	}
	for _, e := range vm {
		r := conf.Config[e.v]
		if r == nil {
			return "bad-op"
		}
		r.VipConf = append(r.VipConf, e.k)
	}
	for _, e := range sm {
		r := conf.Config[e.v]
		if r == nil {
			return "bad-op"
		}
		r.SniConf = append(r.SniConf, e.k)
	}
	var vip net.IP
	if f[4] != "-" {
		vip = net.ParseIP(f[4])
	}
	rule := bfe_server.VerifC41RuleLookup(conf, map[string]*x509.CertPool{}, vip, dashStr(f[5]))
	name := rule.ClientCAName
	if name == "" {
		name = "default"
	}
	return fmt.Sprintf("%s g=%s ca=%s ch=%s", name, rule.Grade, x.B01(rule.ClientAuth), x.B01(rule.Chacha20))
}

var (
	leafMu    sync.Mutex
	leafCache = map[string]*bfe_tls.Certificate{}
	leafKey   *ecdsa.PrivateKey
)

// a throw-away certificate carrying the given DNS names (first one also as CommonName)
func certWithNames(names []string) *bfe_tls.Certificate {
	leafMu.Lock()
	defer leafMu.Unlock()
	key := strings.Join(names, "|")
	if c, ok := leafCache[key]; ok {
		return c
	}
	if leafKey == nil {
		leafKey, _ = ecdsa.GenerateKey(elliptic.P256(), rand.Reader)
	}
	tmpl := &x509.Certificate{SerialNumber: big.NewInt(int64(len(leafCache) + 2)), Subject: pkix.Name{CommonName: names[0]},
		NotBefore: time.Unix(1600000000, 0), NotAfter: time.Unix(4000000000, 0), DNSNames: names[1:]}
	der, err := x509.CreateCertificate(rand.Reader, tmpl, tmpl, &leafKey.PublicKey, leafKey)
	if err != nil {
		return nil
	}
	c := &bfe_tls.Certificate{Certificate: [][]byte{der}, PrivateKey: leafKey}
	leafCache[key] = c
	return c
}

func execCl(f []string) string {
	if len(f) != 5 {
		return "bad-op"
	}
	certs := map[string]*bfe_tls.Certificate{}
	for _, e := range strings.Split(f[1], ";") {
		i := strings.IndexByte(e, '=')
		if i <= 0 {
			return "bad-op"
		}
		c := certWithNames(strings.Split(e[i+1:], "|"))
		if c == nil {
			return "bad-op"
		}
		certs[e[:i]] = c
	}
	vm, ok := parseMap(f[2])
	if !ok {
		return "bad-op"
	}
	rules := tls_rule_conf.TlsRuleMap{}
	for i, e := range vm {
		rules["p"+strconv.Itoa(i)] = &tls_rule_conf.TlsRuleConf{CertName: e.v, VipConf: []string{e.k}}
	}
	var vip net.IP
	if f[3] != "-" {
		vip = net.ParseIP(f[3])
	}
	got := bfe_server.VerifC41CertLookup(certs, rules, vip, dashStr(f[4]))
	if got == "" {
		return "update-failed"
	}
	return got
}

func execCn(f []string) string {
	if len(f) != 4 {
		return "bad-op"
	}
	n, err := strconv.Atoi(f[1])
	if err != nil || n < 1 || n > 8 {
		return "bad-op"
	}
	cfg := &bfe_tls.Config{}
	for i := 0; i < n; i++ {
		cfg.Certificates = append(cfg.Certificates, bfe_tls.Certificate{Certificate: [][]byte{{byte(i)}}})
	}
	if f[2] != "nil" {
		m, ok := parseMap(f[2])
		if !ok {
			return "bad-op"
		}
		cfg.NameToCertificate = map[string]*bfe_tls.Certificate{}
		for _, e := range m {
			i, err := strconv.Atoi(e.v)
			if err != nil || i < 0 || i >= n {
				return "bad-op"
			}
			cfg.NameToCertificate[e.k] = &cfg.Certificates[i]
		}
	}
	return strconv.Itoa(bfe_tls.VerifC41CertForName(cfg, dashStr(f[3])))
}

// ---- client certificates ----------------------------------------------------------------------

func poolOf(s string) *x509.CertPool { return x.PoolOf(s) }

var alertByText = map[string]int{"bad certificate": 42, "handshake failure": 40, "certificate revoked": 44,
	"unsupported certificate": 43, "unexpected message": 10, "protocol version": 70, "internal error": 80}

func execCa(f []string) string {
	if len(f) != 7 {
		return "bad-op"
	}
	pol, err := strconv.Atoi(f[1])
	vers, err2 := strconv.ParseUint(f[6], 16, 16)
	if err != nil || err2 != nil || pol < 0 || pol > 4 {
		return "bad-op"
	}
	certOnce.Do(makeCerts)
	if certErr != nil || x.PKIErr() != nil {
		return "bad-certs"
	}
	scfg := &bfe_tls.Config{Certificates: []bfe_tls.Certificate{ecCert}, ClientAuth: bfe_tls.ClientAuthType(pol),
		ClientCAs: poolOf(f[3]), SessionTicketKey: x.TicketKey()}
	rule := &bfe_tls.Rule{NextProtos: x.FixedProtos(nil), Grade: "C", ClientAuth: f[2] == "1"}
	if rule.ClientAuth {
		rule.ClientCAs = poolOf(f[4])
		rule.ClientCAName = f[4]
	}
	scfg.ServerRule = x.FixedRule{R: rule}
	ccfg := &tls.Config{InsecureSkipVerify: true, ServerName: "verif.test", MinVersion: uint16(vers), MaxVersion: uint16(vers)}
	if f[5] != "none" {
		cc := x.ClientCert(f[5])
		if cc == nil {
			return "bad-op"
		}
		// present it whatever CA names the server advertises
		ccfg.GetClientCertificate = func(*tls.CertificateRequestInfo) (*tls.Certificate, error) { return cc, nil }
	}
	cp, sp := memPipe()
	type sres struct {
		ok    bool
		certs int
	}
	ch := make(chan sres, 1)
	go func() {
		sc := bfe_tls.Server(sp, scfg)
		err := sc.Handshake()
		r := sres{ok: err == nil}
		if err == nil {
			r.certs = len(sc.ConnectionState().PeerCertificates)
		}
		sp.Close()
		ch <- r
	}()
	cc := tls.Client(cp, ccfg)
	cerr := cc.Handshake()
	var one [1]byte
	if cerr == nil {
		// TLS 1.2 and below: the client has seen the server's Finished; nothing more to learn
		_ = one
	}
	cp.Close()
	s := <-ch
	if s.ok && cerr == nil {
		return fmt.Sprintf("srv=ok certs=%d cli=ok", s.certs)
	}
	alert := -1
	if cerr != nil {
		for t, n := range alertByText {
			if strings.Contains(cerr.Error(), "remote error: tls: "+t) {
				alert = n
			}
		}
	}
	so, co := "err", "err"
	if s.ok {
		so = "ok"
	}
	if cerr == nil {
		co = "ok"
	}
	return fmt.Sprintf("srv=%s cli=%s alert=%d", so, co, alert)
}

// ---- generators ---------------------------------------------------------------------------------

var selHosts = []string{"a.example.com", "www.a.example.com", "b.example.com", "x.b.example.com", "y.x.b.example.com",
	"c.test", "deep.c.test", "example.com"}
var selVips = []string{"10.0.0.1", "10.0.0.2", "10.0.0.3", "2001:db8::1"}

func mangle(r *vh.Rand, h string) string {
	switch r.Intn(8) {
	case 0:
		return strings.ToUpper(h)
	case 1:
		return strings.ToUpper(h[:1]) + h[1:]
	case 2:
		return h + "."
	case 3:
		return strings.ToUpper(h) + ".."
	case 4:
		return "zz." + h
	}
	return h
}

func pickSNI(r *vh.Rand) string {
	if r.Chance(1, 8) {
		return "-"
	}
	return mangle(r, selHosts[r.Intn(len(selHosts))])
}

func pickVIP(r *vh.Rand) string {
	if r.Chance(1, 2) {
		return "-"
	}
	if r.Chance(1, 6) {
		return "10.9.9.9"
	}
	return selVips[r.Intn(len(selVips))]
}

func genRl(r *vh.Rand) string {
	n := r.Range(1, 3)
	var prods []string
	for i := 0; i < n; i++ {
		prods = append(prods, fmt.Sprintf("P%d:%s:%s:%s", i+1, r.Pick("A+", "A", "B", "C"), x.B01(r.Chance(1, 2)), x.B01(r.Bool())))
	}
	var vm, sm []string
	for _, v := range selVips {
		if r.Chance(1, 3) {
			vm = append(vm, fmt.Sprintf("%s=P%d", v, r.Range(1, n)))
		}
	}
	for _, h := range selHosts {
		if r.Chance(2, 5) {
			name := h
			if r.Chance(1, 10) {
				name = strings.ToUpper(h[:1]) + h[1:] // an operator may write a capital letter
			}
			sm = append(sm, fmt.Sprintf("%s=P%d", name, r.Range(1, n)))
		}
	}
	return strings.Join([]string{"rl", strings.Join(prods, ";"), x.JoinStr(vm), x.JoinStr(sm), pickVIP(r), pickSNI(r)}, " ")
}

func genCl(r *vh.Rand) string {
	// distinct names across certificates (a shared name would be decided by Go's map iteration order)
	names := append([]string{}, selHosts...)
	names = append(names, "*.a.example.com", "*.b.example.com", "*.c.test", "*.x.b.example.com", "*.example.com")
	for i := len(names) - 1; i > 0; i-- {
		j := r.Intn(i + 1)
		names[i], names[j] = names[j], names[i]
	}
	nc := r.Range(1, 3)
	groups := make([][]string, nc+1)
	for i, nm := range names {
		if r.Chance(3, 5) {
			g := i % (nc + 1)
			groups[g] = append(groups[g], nm)
		}
	}
	var certs []string
	var cnames []string
	for i, g := range groups {
		if len(g) == 0 {
			g = []string{fmt.Sprintf("only%d.invalid", i)}
		}
		name := fmt.Sprintf("C%d", i)
		if i == nc {
			name = "BFE_DEFAULT_CERT"
		}
		cnames = append(cnames, name)
		certs = append(certs, name+"="+strings.Join(g, "|"))
	}
	sort.Strings(certs)
	var vm []string
	for _, v := range selVips {
		if r.Chance(1, 3) {
			vm = append(vm, v+"="+cnames[r.Intn(len(cnames))])
		}
	}
	return strings.Join([]string{"cl", strings.Join(certs, ";"), x.JoinStr(vm), pickVIP(r), pickSNI(r)}, " ")
}

func genCn(r *vh.Rand) string {
	n := r.Range(1, 4)
	m := "nil"
	if r.Chance(5, 6) {
		var e []string
		for _, h := range append(append([]string{}, selHosts...), "*.example.com", "*.a.example.com", "*.*.example.com", "*.test", "*.*.*.example.com") {
			if r.Chance(1, 3) {
				e = append(e, fmt.Sprintf("%s=%d", h, r.Intn(n)))
			}
		}
		m = x.JoinStr(e)
	}
	return strings.Join([]string{"cn", strconv.Itoa(n), m, pickSNI(r)}, " ")
}

func genCa(r *vh.Rand) string {
	return strings.Join([]string{"ca", strconv.Itoa(r.Intn(5)), x.B01(r.Chance(1, 3)), r.Pick("A", "A", "B", "-"), r.Pick("A", "A", "B", "-"),
		r.Pick("none", "A", "A", "B", "noeku", "srvonly", "self"), r.Pick("0303", "0303", "0301", "0302")}, " ")
}
