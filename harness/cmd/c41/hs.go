package main

// Stream `hs`: a complete handshake between Go's crypto/tls client and bfe_tls.Server over an in-memory connection, then an echo
// of application data in both directions.
//
//	hs <cfg:13> <cmin> <cmax> <csuites|n> <ccurves|n> <calpn> <resume 0|1> <data len>
//
// result: `<hello as the server parsed it: 9 fields> | srv=<ok v= s= al= r=|err> cli=<ok v= s= al= r=|err> echo=<ok|bad|->`
// The hello the std client really sent is captured from the wire (first record) and parsed with bfe's own parser,
// so the Lean model is run on exactly that hello.  With resume=1 a first connection is made with the same
// configuration and client session cache and the SECOND connection is the one reported (ticket field of the
// hello = the state of the first connection's session).

import (
	"crypto/ecdsa"
	"crypto/elliptic"
	"crypto/rand"
	"crypto/rsa"
	"crypto/tls"
	"crypto/x509"
	"crypto/x509/pkix"
	"fmt"
	"io"
	"math/big"
	"net"
	"strconv"
	"strings"
	"sync"
	"time"

	x "bfeverif/harness/internal/c4xtls"
	"bfeverif/harness/internal/vh"
	"github.com/bfenetworks/bfe/bfe_tls"
)

var (
	certOnce        sync.Once
	rsaCert, ecCert bfe_tls.Certificate
	certErr         error
)

func selfSigned(pub, priv interface{}) ([]byte, error) {
	tmpl := &x509.Certificate{
		SerialNumber: big.NewInt(1), Subject: pkix.Name{CommonName: "verif.test"},
		NotBefore: time.Unix(1600000000, 0), NotAfter: time.Unix(4000000000, 0),
		KeyUsage:    x509.KeyUsageDigitalSignature | x509.KeyUsageKeyEncipherment,
		ExtKeyUsage: []x509.ExtKeyUsage{x509.ExtKeyUsageServerAuth}, DNSNames: []string{"verif.test"},
		BasicConstraintsValid: true,
	}
	return x509.CreateCertificate(rand.Reader, tmpl, tmpl, pub, priv)
}

func makeCerts() {
	rk, err := rsa.GenerateKey(rand.Reader, 2048)
	if err != nil {
		certErr = err
		return
	}
	rd, err := selfSigned(&rk.PublicKey, rk)
	if err != nil {
		certErr = err
		return
	}
	ek, err := ecdsa.GenerateKey(elliptic.P256(), rand.Reader)
	if err != nil {
		certErr = err
		return
	}
	ed, err := selfSigned(&ek.PublicKey, ek)
	if err != nil {
		certErr = err
		return
	}
	rsaCert = bfe_tls.Certificate{Certificate: [][]byte{rd}, PrivateKey: rk}
	ecCert = bfe_tls.Certificate{Certificate: [][]byte{ed}, PrivateKey: ek}
}

// half is one direction of an in-memory connection with an unbounded buffer: writes never block, so an alert
// sent to a peer that has stopped reading cannot dead-lock the case (net.Pipe is synchronous).
type half struct {
	mu     sync.Mutex
	cond   *sync.Cond
	buf    []byte
	closed bool
}

func newHalf() *half { h := &half{}; h.cond = sync.NewCond(&h.mu); return h }

func (h *half) read(p []byte) (int, error) {
	h.mu.Lock()
	defer h.mu.Unlock()
	for len(h.buf) == 0 && !h.closed {
		h.cond.Wait()
	}
	if len(h.buf) == 0 {
		return 0, io.EOF
	}
	n := copy(p, h.buf)
	h.buf = h.buf[n:]
	return n, nil
}

func (h *half) write(p []byte) (int, error) {
	h.mu.Lock()
	defer h.mu.Unlock()
	if h.closed {
		return 0, io.ErrClosedPipe
	}
	h.buf = append(h.buf, p...)
	h.cond.Broadcast()
	return len(p), nil
}

func (h *half) close() {
	h.mu.Lock()
	h.closed = true
	h.cond.Broadcast()
	h.mu.Unlock()
}

type memConn struct{ in, out *half }

func (m *memConn) Read(p []byte) (int, error)         { return m.in.read(p) }
func (m *memConn) Write(p []byte) (int, error)        { return m.out.write(p) }
func (m *memConn) Close() error                       { m.in.close(); m.out.close(); return nil }
func (m *memConn) LocalAddr() net.Addr                { return &net.TCPAddr{IP: net.IPv4(127, 0, 0, 1), Port: 443} }
func (m *memConn) RemoteAddr() net.Addr               { return &net.TCPAddr{IP: net.IPv4(127, 0, 0, 2), Port: 40000} }
func (m *memConn) SetDeadline(t time.Time) error      { return nil }
func (m *memConn) SetReadDeadline(t time.Time) error  { return nil }
func (m *memConn) SetWriteDeadline(t time.Time) error { return nil }

func memPipe() (*memConn, *memConn) {
	a, b := newHalf(), newHalf()
	return &memConn{in: a, out: b}, &memConn{in: b, out: a}
}

// teeConn records what the server reads (to capture the ClientHello).
type teeConn struct {
	net.Conn
	mu  sync.Mutex
	buf []byte
}

func (t *teeConn) Read(p []byte) (int, error) {
	n, err := t.Conn.Read(p)
	t.mu.Lock()
	if len(t.buf) < 1<<15 {
		t.buf = append(t.buf, p[:n]...)
	}
	t.mu.Unlock()
	return n, err
}

func (t *teeConn) hello() []byte {
	t.mu.Lock()
	defer t.mu.Unlock()
	b := t.buf
	if len(b) < 5 || b[0] != 22 {
		return nil
	}
	n := int(b[3])<<8 | int(b[4])
	if len(b) < 5+n {
		return nil
	}
	return append([]byte{}, b[5:5+n]...)
}

type hsSide struct {
	ok      bool
	v, s    uint16
	alpn    string
	resumed bool
	echo    string
}

func (h hsSide) String() string {
	if !h.ok {
		return "err"
	}
	al := h.alpn
	if al == "" {
		al = "-"
	}
	r := "0"
	if h.resumed {
		r = "1"
	}
	return fmt.Sprintf("ok v=%s s=%s al=%s r=%s", x.Hex4(h.v), x.Hex4(h.s), al, r)
}

// one connection; returns server side, client side, echo verdict, captured hello message
func oneConn(scfg *bfe_tls.Config, ccfg *tls.Config, data []byte, setup ...func(*bfe_tls.Conn)) (srv, cli hsSide, echo string, hello []byte) {
	cp, sp := memPipe()
	tee := &teeConn{Conn: sp}
	done := make(chan struct{})
	go func() {
		defer close(done)
		sc := bfe_tls.Server(tee, scfg)
		for _, f := range setup {
			f(sc)
		}
		if err := sc.Handshake(); err != nil {
			sp.Close()
			return
		}
		st := sc.ConnectionState()
		srv = hsSide{ok: true, v: st.Version, s: st.CipherSuite, alpn: st.NegotiatedProtocol, resumed: st.DidResume}
		buf := make([]byte, len(data))
		if _, err := io.ReadFull(sc, buf); err == nil {
			for i := range buf {
				buf[i] ^= 0x5a
			}
			sc.Write(buf)
		}
		sp.Close()
	}()
	cc := tls.Client(cp, ccfg)
	echo = "-"
	if err := cc.Handshake(); err == nil {
		st := cc.ConnectionState()
		cli = hsSide{ok: true, v: st.Version, s: st.CipherSuite, alpn: st.NegotiatedProtocol, resumed: st.DidResume}
		echo = "bad"
		if _, err := cc.Write(data); err == nil {
			buf := make([]byte, len(data))
			if _, err := io.ReadFull(cc, buf); err == nil {
				good := true
				for i := range buf {
					if buf[i] != data[i]^0x5a {
						good = false
					}
				}
				if good {
					echo = "ok"
				}
			}
		}
	}
	cp.Close()
	<-done
	return srv, cli, echo, tee.hello()
}

func execHs(f []string) string {
	if len(f) != 21 {
		return "bad-op"
	}
	var k x.Kase
	if !x.ParseCfg(f[1:14], &k) {
		return "bad-op"
	}
	cmin, e1 := strconv.ParseUint(f[14], 16, 16)
	cmax, e2 := strconv.ParseUint(f[15], 16, 16)
	resume := f[19] == "1"
	dlen, e3 := strconv.Atoi(f[20])
	if e1 != nil || e2 != nil || e3 != nil || dlen < 1 || dlen > 1<<16 {
		return "bad-op"
	}
	certOnce.Do(makeCerts)
	if certErr != nil {
		return "bad-certs"
	}
	scfg, _ := x.BuildConfig(&k)
	scfg.Rand = nil // real randomness: the key exchange needs it
	switch k.Cert {
	case "r":
		scfg.Certificates = []bfe_tls.Certificate{rsaCert}
	case "e":
		scfg.Certificates = []bfe_tls.Certificate{ecCert}
	}
	ccfg := &tls.Config{InsecureSkipVerify: true, ServerName: "verif.test", MinVersion: uint16(cmin), MaxVersion: uint16(cmax)}
	if f[16] != "n" {
		cs, ok := x.ParseHexList(f[16])
		if !ok {
			return "bad-op"
		}
		ccfg.CipherSuites = cs
	}
	if f[17] != "n" {
		cu, ok := x.ParseDecList(f[17], 16)
		if !ok {
			return "bad-op"
		}
		for _, c := range cu {
			ccfg.CurvePreferences = append(ccfg.CurvePreferences, tls.CurveID(c))
		}
	}
	ccfg.NextProtos = x.SplitList(f[18])
	data := make([]byte, dlen)
	for i := range data {
		data[i] = byte(i*7 + dlen)
	}
	tk := "-"
	if resume {
		ccfg.ClientSessionCache = tls.NewLRUClientSessionCache(4)
		s1, c1, _, _ := oneConn(scfg, ccfg, data[:1])
		if s1.ok && c1.ok {
			tk = fmt.Sprintf("%s:%s:0", x.Hex4(s1.v), x.Hex4(s1.s))
		}
	}
	srv, cli, echo, raw := oneConn(scfg, ccfg, data)
	h, ok := bfe_tls.VerifC41ParseHello(raw)
	if !ok {
		return "hello-not-captured | srv=" + srv.String() + " cli=" + cli.String() + " echo=" + echo
	}
	hk := x.Kase{Hv: h.Vers, Suites: h.Suites, Compression: h.Compression, Curves: h.Curves, Points: h.Points,
		Alpn: h.ALPN, Npn: h.NPN, TkSupported: h.TicketSupported, Ticket: "-", Sid: "-"}
	if len(h.SessionTicket) > 0 {
		hk.Ticket = tk
		if tk == "-" {
			hk.Ticket = "bad"
		}
	}
	if len(h.SessionId) > 0 {
		hk.Sid = "miss"
	}
	return hk.HelloFields() + " | srv=" + srv.String() + " cli=" + cli.String() + " echo=" + echo
}

var stdSuites = []uint16{0xcca8, 0xcca9, 0xc02f, 0xc02b, 0xc011, 0xc007, 0xc013, 0xc009, 0xc014, 0xc00a, 0x0005, 0x002f, 0x0035, 0xc012, 0x000a}

func genHs(r *vh.Rand) string {
	var k x.Kase
	x.GenCfg(r, &k)
	// what a handshake with a certificate-less std client can complete
	if k.ClientAuth == 2 || k.ClientAuth == 4 {
		k.ClientAuth = r.Intn(2)
	}
	k.RuleCA = false
	if k.Cert == "n" {
		k.Cert = "r"
	}
	k.HasCache, k.CacheDis = false, false
	// (server CurvePreferences may name X25519, which bfe's key agreement does not implement: readClientHello accepts
	// and generateServerKeyExchange fails closed — the driver predicts that from keyExchangeCurve)
	if !r.Chance(1, 6) {
		// mostly sane version ranges
		if k.Min != 0 && k.Max != 0 && k.Min > k.Max {
			k.Min, k.Max = k.Max, k.Min
		}
	}
	cmin := uint16(0x0301 + r.Intn(3))
	cmax := uint16(0x0301 + r.Intn(3))
	if cmax < cmin {
		cmin, cmax = cmax, cmin
	}
	if r.Chance(1, 2) {
		cmin, cmax = 0x0301, 0x0303
	}
	if r.Chance(1, 8) {
		cmax = 0x0304
	}
	cs := "n"
	if r.Chance(4, 5) {
		l := x.Shuffle16(r, x.Subset(r, stdSuites, 1, 2))
		if len(l) == 0 {
			l = []uint16{0x002f}
		}
		cs = x.JoinHex(l)
	}
	cu := "n"
	if r.Chance(1, 3) {
		l := x.Shuffle16(r, x.Subset(r, []uint16{23, 24, 25, 29}, 1, 2))
		if len(l) > 0 {
			cu = x.JoinDec16(l)
		}
	}
	resume := "0"
	if r.Chance(1, 3) {
		resume = "1"
	}
	dlen := r.Pick("1", "100", "1024", "1025", "5000", "20000")
	return strings.Join([]string{"hs", k.CfgFields(), x.Hex4(cmin), x.Hex4(cmax), cs, cu, x.JoinStr(x.ProtoList(r)), resume, dlen}, " ")
}
