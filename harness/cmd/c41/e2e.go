package main

// End-to-end streams: the rule is NOT handed to readClientHello by the harness — Config.ServerRule is the production
// bfe_server.TLSServerRuleMap loaded (Update) with generated rule configurations keyed on SNI and VIP, and
// readClientHello finds the rule itself through the Conn (ServerRule.Get(c), rule.NextProtos.Get(c)).
//
//	ee <products> <vipmap> <snimap> <vip> <sni> <cert> <hello: 7 fields>       direct readClientHello (hook)
//	eh <products> <vipmap> <snimap> <vip> <sni> <cert> <cmin> <cmax> <csuites|n> <calpn> <client none|A|B>
//	                                                                            complete handshake, Go's crypto/tls client
//	products = name:grade:clientAuth:chacha20:proto+proto…   (a product with clientAuth=1 trusts CA A)
//	→ ee: as stream rch;  eh: `<hello as parsed: 9 fields> | srv=… cli=… echo=…` as stream hs

import (
	"crypto/tls"
	"crypto/x509"
	"net"
	"strconv"
	"strings"

	x "bfeverif/harness/internal/c4xtls"
	"bfeverif/harness/internal/vh"
	"github.com/bfenetworks/bfe/bfe_config/bfe_tls_conf/tls_rule_conf"
	"github.com/bfenetworks/bfe/bfe_server"
	"github.com/bfenetworks/bfe/bfe_tls"
)

type vipParam struct{ ip net.IP }

func (v vipParam) GetVip() net.IP { return v.ip }

func ruleMapFrom(prods, vmS, smS string) (*bfe_server.TLSServerRuleMap, bool) {
	conf := tls_rule_conf.BfeTlsRuleConf{Version: "v", Config: tls_rule_conf.TlsRuleMap{}}
	caMap := map[string]*x509.CertPool{}
	for _, p := range strings.Split(prods, ";") {
		q := strings.Split(p, ":")
		if len(q) != 5 {
			return nil, false
		}
		conf.Config[q[0]] = &tls_rule_conf.TlsRuleConf{CertName: "c", Grade: q[1], ClientAuth: q[2] == "1",
			ClientCAName: q[0], Chacha20: q[3] == "1", NextProtos: strings.Split(q[4], "+")}
		if q[2] == "1" {
			caMap[q[0]] = x.PoolOf("A")
		}
	}
	vm, ok1 := parseMap(vmS)
	sm, ok2 := parseMap(smS)
	if !ok1 || !ok2 {
		return nil, false
	}
	for _, e := range vm {
		r := conf.Config[e.v]
		if r == nil {
			return nil, false
		}
		r.VipConf = append(r.VipConf, e.k)
	}
	for _, e := range sm {
		r := conf.Config[e.v]
		if r == nil {
			return nil, false
		}
		r.SniConf = append(r.SniConf, e.k)
	}
	return bfe_server.VerifC41RuleMap(conf, caMap), true
}

func execEe(f []string) string {
	if len(f) != 14 || x.PKIErr() != nil {
		return "bad-op"
	}
	rm, ok := ruleMapFrom(f[1], f[2], f[3])
	var k x.Kase
	if !ok || !x.ParseHello(append(append([]string{}, f[7:14]...), "-", "-"), &k) {
		return "bad-op"
	}
	cfg := &bfe_tls.Config{Rand: x.ZeroReader{}, SessionTicketKey: x.TicketKey(), ServerRule: rm,
		Certificates: []bfe_tls.Certificate{bfe_tls.VerifC41DummyCert(f[6] == "e")}}
	h := &bfe_tls.VerifC41Hello{Vers: k.Hv, Suites: k.Suites, Compression: k.Compression, Curves: k.Curves,
		Points: k.Points, ALPN: k.Alpn, NPN: k.Npn, TicketSupported: k.TkSupported, ServerName: dashStr(f[5])}
	if f[4] != "-" {
		h.Vip = net.ParseIP(f[4])
	}
	return renderNego(bfe_tls.VerifC41ReadClientHello(cfg, h))
}

func execEh(f []string) string {
	if len(f) != 12 || x.PKIErr() != nil {
		return "bad-op"
	}
	rm, ok := ruleMapFrom(f[1], f[2], f[3])
	cmin, e1 := strconv.ParseUint(f[7], 16, 16)
	cmax, e2 := strconv.ParseUint(f[8], 16, 16)
	if !ok || e1 != nil || e2 != nil || certErr != nil {
		return "bad-op"
	}
	scfg := &bfe_tls.Config{SessionTicketKey: x.TicketKey(), ServerRule: rm}
	if f[6] == "e" {
		scfg.Certificates = []bfe_tls.Certificate{ecCert}
	} else {
		scfg.Certificates = []bfe_tls.Certificate{rsaCert}
	}
	ccfg := &tls.Config{InsecureSkipVerify: true, ServerName: dashStr(f[5]), MinVersion: uint16(cmin), MaxVersion: uint16(cmax),
		NextProtos: x.SplitList(f[10])}
	if f[9] != "n" {
		cs, ok := x.ParseHexList(f[9])
		if !ok {
			return "bad-op"
		}
		ccfg.CipherSuites = cs
	}
	if f[11] != "none" {
		cc := x.ClientCert(f[11])
		if cc == nil {
			return "bad-op"
		}
		ccfg.GetClientCertificate = func(*tls.CertificateRequestInfo) (*tls.Certificate, error) { return cc, nil }
	}
	data := make([]byte, 300)
	for i := range data {
		data[i] = byte(i * 3)
	}
	setup := func(c *bfe_tls.Conn) {
		if f[4] != "-" {
			c.SetConnParam(vipParam{net.ParseIP(f[4])})
		}
	}
	srv, cli, echo, raw := oneConn(scfg, ccfg, data, setup)
	h, ok := bfe_tls.VerifC41ParseHello(raw)
	if !ok {
		return "hello-not-captured | srv=" + srv.String() + " cli=" + cli.String() + " echo=" + echo
	}
	hk := x.Kase{Hv: h.Vers, Suites: h.Suites, Compression: h.Compression, Curves: h.Curves, Points: h.Points,
		Alpn: h.ALPN, Npn: h.NPN, TkSupported: h.TicketSupported, Ticket: "-", Sid: "-"}
	if len(h.SessionId) > 0 {
		hk.Sid = "miss"
	}
	return hk.HelloFields() + " | srv=" + srv.String() + " cli=" + cli.String() + " echo=" + echo
}

func genProducts(r *vh.Rand) (prods string, n int) {
	n = r.Range(1, 3)
	var ps []string
	for i := 0; i < n; i++ {
		protos := r.Pick("http/1.1", "h2+http/1.1", "h2+http/1.1", "spdy/3.1+http/1.1", "h2")
		ps = append(ps, strings.Join([]string{"P" + strconv.Itoa(i+1), r.Pick("A+", "A", "B", "C"), x.B01(r.Chance(1, 3)), x.B01(r.Bool()), protos}, ":"))
	}
	return strings.Join(ps, ";"), n
}

// a presented name that is usually one of the configured ones (in some spelling)
func sniFor(r *vh.Rand, sm string, dots bool) string {
	if sm != "-" && r.Chance(3, 4) {
		e := strings.Split(sm, ",")
		h := e[r.Intn(len(e))]
		h = h[:strings.IndexByte(h, '=')]
		switch r.Intn(6) {
		case 0:
			return strings.ToUpper(h)
		case 1:
			return strings.ToUpper(h[:1]) + h[1:]
		case 2:
			if dots {
				return h + "."
			}
		}
		return h
	}
	if dots {
		return pickSNI(r)
	}
	return selHosts[r.Intn(len(selHosts))]
}

func genMaps(r *vh.Rand, n int) (vm, sm string) {
	var v, s []string
	for _, ip := range selVips {
		if r.Chance(1, 4) {
			v = append(v, ip+"=P"+strconv.Itoa(r.Range(1, n)))
		}
	}
	for _, h := range selHosts {
		if r.Chance(1, 2) {
			s = append(s, h+"=P"+strconv.Itoa(r.Range(1, n)))
		}
	}
	return x.JoinStr(v), x.JoinStr(s)
}

func genEe(r *vh.Rand) string {
	prods, n := genProducts(r)
	vm, sm := genMaps(r, n)
	var k x.Kase
	k.CsNil = true
	x.GenHello(r, &k)
	if !r.Chance(1, 8) {
		k.Compression = []uint8{0}
		if k.Hv < 0x0300 || k.Hv > 0x0303 {
			k.Hv = 0x0303
		}
	}
	hf := strings.Split(k.HelloFields(), " ")
	vip := "-"
	if r.Chance(1, 4) {
		vip = pickVIP(r)
	}
	return strings.Join([]string{"ee", prods, vm, sm, vip, sniFor(r, sm, true), r.Pick("r", "r", "e"), strings.Join(hf[:7], " ")}, " ")
}

func genEh(r *vh.Rand) string {
	prods, n := genProducts(r)
	vm, sm := genMaps(r, n)
	sni := sniFor(r, sm, false)
	cmin, cmax := "0301", "0303"
	if r.Chance(1, 3) {
		cmax = r.Pick("0301", "0302")
	}
	cs := "n"
	if r.Chance(1, 2) {
		cs = x.JoinHex(x.Shuffle16(r, x.Subset(r, stdSuites, 1, 2)))
		if cs == "-" {
			cs = "002f"
		}
	}
	vip := "-"
	if r.Chance(1, 4) {
		vip = pickVIP(r)
	}
	return strings.Join([]string{"eh", prods, vm, sm, vip, sni, r.Pick("r", "e"), cmin, cmax, cs,
		r.Pick("-", "h2,http/1.1", "http/1.1", "h2", "spdy/3.1,http/1.1"), r.Pick("none", "none", "A", "A", "B")}, " ")
}
