// C41: TLS negotiation.  Two streams:
//
//	rch …   one (Config, Rule, ClientHello, session lookups) case driven straight into the REAL
//	        (*serverHandshakeState).readClientHello through the verif hook (hand-built hellos: SCSV, odd
//	        versions, missing ECC extensions, tickets, session ids).
//	hs …    a full handshake between Go's crypto/tls client and bfe_tls.Server over net.Pipe, followed by an
//	        echo of application data in both directions; the hello the std client really sent is captured from
//	        the wire and reported, so the Lean model is run on exactly that hello.
package main

import (
	"fmt"
	"strconv"
	"strings"
	"time"

	x "bfeverif/harness/internal/c4xtls"
	"bfeverif/harness/internal/vh"
	"github.com/bfenetworks/bfe/bfe_tls"
)

func renderNego(r *bfe_tls.VerifC41Nego) string {
	if r.Err != "" {
		if r.Alert < 0 {
			return "err-noalert"
		}
		return "alert=" + strconv.Itoa(r.Alert)
	}
	d := func(s string) string {
		if s == "" {
			return "-"
		}
		return s
	}
	npn := "off"
	if r.NPN {
		npn = x.JoinStr(r.NPNProtos)
	}
	sv := "-"
	res := "0"
	if r.Resume {
		res = "1"
		sv = x.Hex4(r.SessVers)
	}
	ex := "0"
	if r.EcdheNoExt {
		ex = "1"
	}
	return fmt.Sprintf("ok r=%s v=%s s=%s al=%s cp=%s npn=%s ca=%d ex=%s sv=%s", res, x.Hex4(r.Vers), x.Hex4(r.Suite),
		d(r.ALPN), d(r.ClientProto), npn, r.ClientAuth, ex, sv)
}

// sessionInputs turns the ticket / sid fields of a case into the bytes a hello carries (a real ticket sealed under the
// config's key, a session id whose state is put into the cache, garbage, …).
func sessionInputs(k *x.Kase, cfg *bfe_tls.Config, cache x.MapCache) (ticket, sidOut []byte, ok bool) {
	switch k.Ticket {
	case "-":
	case "bad":
		b := make([]byte, 96)
		for i := range b {
			b[i] = byte(7 * i)
		}
		ticket = b
	default:
		v, su, certs, ok := x.ParseSess(k.Ticket)
		if !ok {
			return nil, nil, false
		}
		t, err := bfe_tls.VerifC41Ticket(cfg, v, su, x.Master48, certs)
		if err != nil {
			return nil, nil, false
		}
		ticket = t
	}
	sid := make([]byte, 32)
	for i := range sid {
		sid[i] = byte(0x40 + i)
	}
	switch k.Sid {
	case "-":
	case "miss":
		sidOut = sid
	case "badcache":
		sidOut = sid
		if cache != nil {
			cache.Put(fmt.Sprintf("%x", sid), []byte{3, 1, 0})
		}
	default:
		v, su, certs, ok := x.ParseSess(k.Sid)
		if !ok {
			return nil, nil, false
		}
		sidOut = sid
		if cache != nil {
			cache.Put(fmt.Sprintf("%x", sid), bfe_tls.VerifC41SessionBytes(v, su, x.Master48, certs))
		}
	}
	return ticket, sidOut, true
}

func execRch(f []string) string {
	var k x.Kase
	if len(f) != 23 || !x.ParseCfg(f[1:14], &k) || !x.ParseHello(f[14:23], &k) {
		return "bad-op"
	}
	cfg, cache := x.BuildConfig(&k)
	switch k.Cert {
	case "r":
		cfg.Certificates = []bfe_tls.Certificate{bfe_tls.VerifC41DummyCert(false)}
	case "e":
		cfg.Certificates = []bfe_tls.Certificate{bfe_tls.VerifC41DummyCert(true)}
	}
	h := &bfe_tls.VerifC41Hello{Vers: k.Hv, Suites: k.Suites, Compression: k.Compression, Curves: k.Curves,
		Points: k.Points, ALPN: k.Alpn, NPN: k.Npn, TicketSupported: k.TkSupported}
	var ok bool
	if h.SessionTicket, h.SessionId, ok = sessionInputs(&k, cfg, cache); !ok {
		return "bad-op"
	}
	return renderNego(bfe_tls.VerifC41ReadClientHello(cfg, h))
}

func gen(r *vh.Rand) string {
	switch r.Intn(80) {
	case 0, 1:
		return genHs(r)
	case 2:
		return genCa(r)
	case 3, 4, 5:
		return genRl(r)
	case 6, 7, 8:
		return genCl(r)
	case 9:
		return genCn(r)
	case 10, 11, 12, 13:
		return genEe(r)
	case 14:
		return genEh(r)
	case 15, 16, 17, 18, 19, 20:
		return genRw(r)
	case 21:
		// reload histories go through files and the real loaders (about 80 ms each): few in the quick tier
		if vh.Thorough || r.Chance(1, 4) {
			return genLh(r)
		}
	}
	var k x.Kase
	x.GenCfg(r, &k)
	x.GenHello(r, &k)
	return k.Op()
}

func exec(op string) string {
	f := strings.Split(op, " ")
	switch f[0] {
	case "rch":
		return execRch(f)
	case "lh":
		return execLh(f)
	case "rw":
		return execRw(f)
	case "ee":
		return execEe(f)
	case "eh":
		certOnce.Do(makeCerts)
		x.PKIErr()
		return vh.SafeTimeout(120*time.Second, func() string { return execEh(f) })
	case "rl":
		return execRl(f)
	case "cl":
		return execCl(f)
	case "cn":
		return execCn(f)
	case "ca":
		certOnce.Do(makeCerts)
		x.PKIErr()
		return vh.SafeTimeout(120*time.Second, func() string { return execCa(f) })
	case "hs":
		// key generation (once per process) is kept outside the watchdog: under load it can take many seconds,
		// and timing must never decide a verdict; a handshake over the in-memory connection cannot block on I/O,
		// so HANG here would mean a real dead-lock
		certOnce.Do(makeCerts)
		return vh.SafeTimeout(120*time.Second, func() string { return execHs(f) })
	}
	return "bad-op"
}

// Pre: a deterministic set (independent of VERIF_SEED) of the expensive streams, so that every run — also the quick tier,
// where the random share of these streams is small — exercises reload histories, raw / segmented hellos, end-to-end rule
// application and complete handshakes on the same fixed cases.
func pre(emit func(op string), thorough bool) {
	r := vh.NewRand(4141)
	n := 1
	if thorough {
		n = 20
	}
	for i := 0; i < 8*n; i++ {
		emit(genLh(r))
	}
	for i := 0; i < 60*n; i++ {
		emit(genRw(r))
	}
	for i := 0; i < 20*n; i++ {
		emit(genEe(r))
		emit(genRl(r))
		emit(genCl(r))
	}
	for i := 0; i < 6*n; i++ {
		emit(genEh(r))
		emit(genHs(r))
		emit(genCa(r))
	}
}

func main() {
	vh.Pre = pre
	vh.Main(gen, exec)
}
