package main

// Stream `rw`: the ClientHello is serialised by the HARNESS (not by bfe's marshaller) with unusual-but-legal
// decorations that must not change the outcome, and delivered to the real readHandshake / readRecord in pieces.
//
//	rw <seg> <decor> <the 22 fields of an rch case>
//
//	seg   one        one record, one read
//	      b1         one record, one byte per read
//	      b7z        reads of 7 bytes with an empty read (0, nil) before each
//	      r2 | r5    the handshake message fragmented over 2 / 5 records (cut points derived from the length)
//	      r1h        first record carries a single byte of the handshake header
//	      r5b1       5 records, one byte per read
//	      eof        one record, the last piece returned together with io.EOF
//	decor `-` or `+`-joined:
//	      gs  GREASE suites (0x0a0a first, 0xfafa last)        ge   GREASE extensions (0x0a0a empty first, 0xfafa last)
//	      ux  unknown extension 0xff55 in the middle            sa   signature_algorithms present
//	      br  the usual browser extensions (status_request, extended_master_secret 23, SCT 18, padding 21)
//	      rev extensions in reverse order                       da   ALPN extension sent twice (same list)
//	      ds  server_name sent twice (same name)                sn   server_name "Verif.Example.COM." present
//	      s1  1-byte session id                                 ax   ALPN list additionally offers "zz/9" and a 255-byte protocol
//
// The result is rendered exactly as for `rch`; the model and the oracle are those of `rch` on the base fields.

import (
	"strings"

	x "bfeverif/harness/internal/c4xtls"
	"bfeverif/harness/internal/vh"
	"github.com/bfenetworks/bfe/bfe_tls"
)

type rawExt struct {
	typ  uint16
	data []byte
}

func u16(v int) []byte { return []byte{byte(v >> 8), byte(v)} }

func extSNI(name string) rawExt {
	d := append(u16(len(name)+3), 0)
	d = append(d, u16(len(name))...)
	return rawExt{0, append(d, name...)}
}

func extALPN(protos []string) rawExt {
	var l []byte
	for _, p := range protos {
		l = append(l, byte(len(p)))
		l = append(l, p...)
	}
	return rawExt{16, append(u16(len(l)), l...)}
}

func buildRawHello(k *x.Kase, ticket, sid []byte, decor map[string]bool) []byte {
	suites := append([]uint16{}, k.Suites...)
	if decor["gs"] {
		suites = append(append([]uint16{0x0a0a}, suites...), 0xfafa)
	}
	if decor["s1"] && len(sid) == 0 {
		// only decorates hellos that present no session id of their own; a 1-byte id is never in the cache
		sid = []byte{0x5a}
	}
	var exts []rawExt
	if decor["sn"] || decor["ds"] {
		exts = append(exts, extSNI("Verif.Example.COM."))
	}
	if k.Npn {
		exts = append(exts, rawExt{13172, nil})
	}
	if len(k.Curves) > 0 {
		var l []byte
		for _, c := range k.Curves {
			l = append(l, u16(int(c))...)
		}
		exts = append(exts, rawExt{10, append(u16(len(l)), l...)})
	}
	if len(k.Points) > 0 {
		exts = append(exts, rawExt{11, append([]byte{byte(len(k.Points))}, k.Points...)})
	}
	if k.TkSupported {
		exts = append(exts, rawExt{35, ticket})
	}
	if decor["ux"] {
		exts = append(exts, rawExt{0xff55, []byte{1, 2, 3, 4, 5}})
	}
	if decor["sa"] {
		exts = append(exts, rawExt{13, []byte{0, 4, 4, 1, 2, 3}})
	}
	if len(k.Alpn) > 0 {
		protos := append([]string{}, k.Alpn...)
		if decor["ax"] {
			protos = append(protos, "zz/9", strings.Repeat("q", 255))
		}
		exts = append(exts, extALPN(protos))
		if decor["da"] {
			exts = append(exts, extALPN(protos))
		}
	}
	if decor["ds"] {
		exts = append(exts, extSNI("Verif.Example.COM."))
	}
	if decor["br"] {
		exts = append(exts, rawExt{5, []byte{1, 0, 0, 0, 0}}, rawExt{23, nil}, rawExt{18, nil}, rawExt{21, make([]byte, 40)})
	}
	if decor["rev"] {
		for i, j := 0, len(exts)-1; i < j; i, j = i+1, j-1 {
			exts[i], exts[j] = exts[j], exts[i]
		}
	}
	if decor["ge"] {
		exts = append(append([]rawExt{{0x0a0a, nil}}, exts...), rawExt{0xfafa, []byte{0}})
	}
	body := u16(int(k.Hv))
	body = append(body, make([]byte, 32)...)
	body = append(body, byte(len(sid)))
	body = append(body, sid...)
	body = append(body, u16(2*len(suites))...)
	for _, s := range suites {
		body = append(body, u16(int(s))...)
	}
	body = append(body, byte(len(k.Compression)))
	body = append(body, k.Compression...)
	if len(exts) > 0 {
		var eb []byte
		for _, e := range exts {
			eb = append(eb, u16(int(e.typ))...)
			eb = append(eb, u16(len(e.data))...)
			eb = append(eb, e.data...)
		}
		body = append(body, u16(len(eb))...)
		body = append(body, eb...)
	}
	msg := []byte{1, byte(len(body) >> 16), byte(len(body) >> 8), byte(len(body))}
	return append(msg, body...)
}

// records cuts a handshake message into TLS records at the given points
func records(msg []byte, cuts []int) []byte {
	var out []byte
	prev := 0
	emit := func(frag []byte) {
		out = append(out, 22, 3, 1, byte(len(frag)>>8), byte(len(frag)))
		out = append(out, frag...)
	}
	for _, c := range cuts {
		if c > prev && c < len(msg) {
			emit(msg[prev:c])
			prev = c
		}
	}
	emit(msg[prev:])
	return out
}

func segment(mode string, msg []byte) (wire []byte, chunks []int, eof bool, ok bool) {
	n := len(msg)
	ones := func(k int) []int {
		c := make([]int, k)
		for i := range c {
			c[i] = 1
		}
		return c
	}
	switch mode {
	case "one":
		return records(msg, nil), nil, false, true
	case "b1":
		w := records(msg, nil)
		return w, ones(len(w)), false, true
	case "b7z":
		w := records(msg, nil)
		for i := 0; i < len(w); i += 7 {
			chunks = append(chunks, 0, 7)
		}
		return w, chunks, false, true
	case "r2":
		return records(msg, []int{n / 2}), nil, false, true
	case "r5":
		return records(msg, []int{3, 4, 5 + n/3, n - 1}), nil, false, true
	case "r1h":
		return records(msg, []int{1}), nil, false, true
	case "r5b1":
		w := records(msg, []int{2, 6, n / 2, n - 2})
		return w, ones(len(w)), false, true
	case "eof":
		return records(msg, nil), nil, true, true
	}
	return nil, nil, false, false
}

func execRw(f []string) string {
	if len(f) != 25 {
		return "bad-op"
	}
	var k x.Kase
	if !x.ParseCfg(f[3:16], &k) || !x.ParseHello(f[16:25], &k) {
		return "bad-op"
	}
	decor := map[string]bool{}
	if f[2] != "-" {
		for _, d := range strings.Split(f[2], "+") {
			decor[d] = true
		}
	}
	cfg, cache := x.BuildConfig(&k)
	switch k.Cert {
	case "r":
		cfg.Certificates = []bfe_tls.Certificate{bfe_tls.VerifC41DummyCert(false)}
	case "e":
		cfg.Certificates = []bfe_tls.Certificate{bfe_tls.VerifC41DummyCert(true)}
	}
	ticket, sid, ok := sessionInputs(&k, cfg, cache)
	if !ok {
		return "bad-op"
	}
	msg := buildRawHello(&k, ticket, sid, decor)
	wire, chunks, eof, ok := segment(f[1], msg)
	if !ok {
		return "bad-op"
	}
	return renderNego(bfe_tls.VerifC41ReadClientHelloWire(cfg, wire, chunks, eof, nil, len(k.Curves)))
}

var rwSegs = []string{"one", "b1", "b7z", "r2", "r5", "r1h", "r5b1", "eof"}
var rwDecor = []string{"gs", "ge", "ux", "sa", "br", "rev", "da", "ds", "sn", "s1", "ax"}

func genRw(r *vh.Rand) string {
	var k x.Kase
	x.GenCfg(r, &k)
	x.GenHello(r, &k)
	var d []string
	for _, e := range rwDecor {
		if r.Chance(1, 3) {
			d = append(d, e)
		}
	}
	ds := "-"
	if len(d) > 0 {
		ds = strings.Join(d, "+")
	}
	return "rw " + rwSegs[r.Intn(len(rwSegs))] + " " + ds + " " + k.CfgFields() + " " + k.HelloFields()
}
