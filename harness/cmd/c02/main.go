// C02: hash based / sticky selection — drives the real BalanceRR.Balance(WrrSticky, key) and
// BalanceGslb.Balance (sub-cluster choice by hash, getHashKey per strategy).
package main

import (
	"bytes"
	"fmt"
	"net"
	"sort"
	"strconv"
	"strings"

	"bfeverif/harness/internal/vh"
	"github.com/bfenetworks/bfe/bfe_balance/bal_gslb"
	"github.com/bfenetworks/bfe/bfe_balance/bal_slb"
	"github.com/bfenetworks/bfe/bfe_basic"
	"github.com/bfenetworks/bfe/bfe_config/bfe_cluster_conf/cluster_conf"
	"github.com/bfenetworks/bfe/bfe_config/bfe_cluster_conf/cluster_table_conf"
	"github.com/bfenetworks/bfe/bfe_config/bfe_cluster_conf/gslb_conf"
	"github.com/bfenetworks/bfe/bfe_http"
	"github.com/spaolacci/murmur3"
)

type be struct {
	addr string
	w, a int
}

func fmtBs(bs []be) string {
	if len(bs) == 0 {
		return "-"
	}
	s := make([]string, len(bs))
	for i, b := range bs {
		s[i] = fmt.Sprintf("%s/%d/%d", b.addr, b.w, b.a)
	}
	return strings.Join(s, ",")
}

func parseBs(s string) ([]be, bool) {
	if s == "-" {
		return nil, true
	}
	var out []be
	seen := map[string]bool{}
	for _, t := range strings.Split(s, ",") {
		p := strings.Split(t, "/")
		if len(p) != 3 {
			return nil, false
		}
		w, e1 := strconv.Atoi(p[1])
		a, e2 := strconv.Atoi(p[2])
		if e1 != nil || e2 != nil || seen[p[0]] {
			return nil, false
		}
		if _, _, ok := splitAddr(p[0]); !ok {
			return nil, false
		}
		seen[p[0]] = true
		out = append(out, be{p[0], w, a})
	}
	return out, true
}

func splitAddr(ai string) (string, int, bool) {
	i := strings.LastIndexByte(ai, ':')
	if i <= 0 {
		return "", 0, false
	}
	port, err := strconv.Atoi(ai[i+1:])
	if err != nil || port < 0 || strconv.Itoa(port) != ai[i+1:] {
		return "", 0, false
	}
	return ai[:i], port, true
}

func mkConf(bs []be) cluster_table_conf.SubClusterBackend {
	conf := cluster_table_conf.SubClusterBackend{}
	for i, b := range bs {
		addr, port, _ := splitAddr(b.addr)
		name := fmt.Sprintf("n%d", i)
		w := 1
		a, p := addr, port
		conf = append(conf, &cluster_table_conf.BackendConf{Name: &name, Addr: &a, Port: &p, Weight: &w})
	}
	return conf
}

func applyState(rr *bal_slb.BalanceRR, bs []be) {
	for _, b := range bs {
		rr.VerifC02SetWeight(b.addr, b.w)
	}
	for _, h := range rr.VerifC02Backends() {
		for _, b := range bs {
			if b.addr == h.AddrInfo {
				h.SetAvail(b.a == 1)
			}
		}
	}
}

// ---------- generation

var queue []string

func genAddrs(r *vh.Rand, n int) []string {
	seen := map[string]bool{}
	var out []string
	for len(out) < n {
		var a string
		switch r.Intn(4) {
		case 0:
			a = fmt.Sprintf("10.0.0.%d:%d", r.Range(1, 12), 80)
		case 1:
			a = fmt.Sprintf("10.0.0.%d:%d", r.Range(1, 3), r.Range(8000, 8012))
		case 2:
			a = fmt.Sprintf("10.0.%d.1%s:%d", r.Range(0, 2), r.Pick("", "0", "00"), r.Range(80, 81))
		default:
			a = fmt.Sprintf("%s:%d", r.Pick("a.svc", "b.svc", "A.svc", "a-1.svc", "a.svc.local"), r.Range(79, 81))
		}
		if !seen[a] {
			seen[a] = true
			out = append(out, a)
		}
	}
	return out
}

func genBs(r *vh.Rand, n int, small bool) []be {
	addrs := genAddrs(r, n)
	bs := make([]be, n)
	for i := range bs {
		w := r.Range(1, 12) * 100
		if small {
			w = r.Range(1, 5)
		} else if r.Chance(1, 4) {
			w = r.Range(1, 1500)
		}
		if r.Chance(1, 10) {
			w = []int{0, -1, -100}[r.Intn(3)]
		}
		a := 1
		if r.Chance(1, 6) {
			a = 0
		}
		bs[i] = be{addrs[i], w, a}
	}
	return bs
}

func shuffle(r *vh.Rand, bs []be) []be {
	out := append([]be(nil), bs...)
	for i := len(out) - 1; i > 0; i-- {
		j := r.Intn(i + 1)
		out[i], out[j] = out[j], out[i]
	}
	return out
}

var keyLens = []int{1, 2, 3, 4, 7, 8, 9, 15, 16, 17, 24, 31, 32, 33, 40, 47, 48, 49}

func genKey(r *vh.Rand) []byte {
	switch r.Intn(6) {
	case 0:
		return r.Bytes(4)
	case 1:
		return r.Bytes(16)
	case 2:
		return r.Bytes(keyLens[r.Intn(len(keyLens))])
	case 3:
		return []byte(fmt.Sprintf("user-%d", r.Intn(100000)))
	default:
		return r.Bytes(r.Range(1, 20))
	}
}

func eligW(bs []be) int {
	w := 0
	for _, b := range bs {
		if b.a == 1 && b.w > 0 {
			w += b.w
		}
	}
	return w
}

// keysCovering returns one key per residue 0..W-1 (W small)
func keysCovering(r *vh.Rand, W int) [][]byte {
	got := map[int][]byte{}
	for tries := 0; len(got) < W && tries < 200*W; tries++ {
		k := genKey(r)
		x := int(murmur3.Sum64(k) % uint64(W))
		if _, ok := got[x]; !ok {
			got[x] = k
		}
	}
	var out [][]byte
	for i := 0; i < W; i++ {
		if k, ok := got[i]; ok {
			out = append(out, k)
		}
	}
	return out
}

func hexKeys(ks [][]byte) string {
	s := make([]string, len(ks))
	for i, k := range ks {
		s[i] = vh.Hex(k)
	}
	return strings.Join(s, ",")
}

func genSticky(r *vh.Rand) {
	n := r.Range(1, 7)
	if r.Chance(1, 12) {
		n = r.Range(0, 1)
	}
	if r.Chance(1, 12) {
		n = r.Range(8, 14)
	}
	small := r.Chance(1, 3)
	bs := genBs(r, n, small)
	var keys [][]byte
	if W := eligW(bs); small && W > 0 && W <= 40 {
		keys = keysCovering(r, W)
	} else {
		for i, k := 0, r.Range(3, 12); i < k; i++ {
			keys = append(keys, genKey(r))
		}
		if r.Chance(1, 10) {
			keys = append(keys, []byte{})
		}
	}
	hk := hexKeys(keys)
	queue = append(queue, "st "+fmtBs(bs)+" "+hk)
	for i, k := 0, r.Range(1, 3); i < k && n >= 2; i++ {
		queue = append(queue, "st "+fmtBs(shuffle(r, bs))+" "+hk)
	}
	if n >= 2 && r.Chance(1, 2) {
		// the same set sorted ascending / descending by address
		s := append([]be(nil), bs...)
		sort.Slice(s, func(i, j int) bool { return s[i].addr < s[j].addr })
		queue = append(queue, "st "+fmtBs(s)+" "+hk)
		for i, j := 0, len(s)-1; i < j; i, j = i+1, j-1 {
			s[i], s[j] = s[j], s[i]
		}
		queue = append(queue, "st "+fmtBs(s)+" "+hk)
	}
	if n >= 1 && r.Chance(1, 3) {
		// Update path: Init with another list first (sets the sorted flag), then Update to bs
		old := genBs(r, r.Range(1, 4), small)
		for i := range old {
			if r.Chance(1, 2) && i < len(bs) {
				old[i].addr = bs[r.Intn(len(bs))].addr
			}
		}
		if ob, ok := parseBs(fmtBs(old)); ok && len(ob) > 0 {
			queue = append(queue, "su "+fmtBs(old)+" "+fmtBs(bs)+" "+hk)
		}
	}
}

var subNames = []string{"a.bj", "b.gz", "c.hz", "light.example.wt", "A.bj", "a", "ab", "a.bj2", "z9", "GSLB_BLACKHOLE"}
var hdrSpecs = []string{"X-Uid", "Cookie:sid", "Cookie: sid ", "uid", "Cookie:SID"}

func genField(r *vh.Rand, alnum bool) string {
	if alnum {
		const cs = "abcdefghijklmnopqrstuvwxyzABCDEFGHIJKLMNOPQRSTUVWXYZ0123456789"
		n := r.Range(1, 24)
		b := make([]byte, n)
		for i := range b {
			b[i] = cs[r.Intn(len(cs))]
		}
		return vh.Hex(b)
	}
	return vh.Hex(genKey(r))
}

func genGslb(r *vh.Rand) {
	ns := r.Range(1, 5)
	names := map[string]bool{}
	var subs []sub
	onePos := r.Chance(1, 5)
	small := r.Chance(1, 3)
	for len(subs) < ns {
		nm := subNames[r.Intn(len(subNames)-1)] // no black hole here (C03)
		if names[nm] {
			continue
		}
		names[nm] = true
		w := r.Range(1, 100)
		if small {
			w = r.Range(1, 4)
		}
		if r.Chance(1, 5) || (onePos && len(subs) > 0) {
			w = []int{0, 0, -1, -50}[r.Intn(4)]
		}
		nb := r.Range(1, 4)
		if r.Chance(1, 10) {
			nb = 0
		}
		subs = append(subs, sub{nm, w, genBs(r, nb, r.Chance(1, 2))})
	}
	sticky := r.Intn(2)
	strat := r.Intn(4)
	spec := hdrSpecs[r.Intn(len(hdrSpecs))]
	nreq := r.Range(3, 10)
	var reqs []string
	var fixedIP, fixedHv string
	fixedIP = vh.Hex(r.Bytes(4))
	fixedHv = genField(r, true)
	for i := 0; i < nreq; i++ {
		ip := "n"
		switch r.Intn(8) {
		case 0:
		case 1, 2:
			ip = vh.Hex(r.Bytes(16))
		case 3:
			ip = fixedIP
		case 4: // the same IPv4 address in its 16-byte v4-mapped form (what net.ParseIP returns): a different key
			ip = "00000000000000000000ffff" + fixedIP
		case 5:
			ip = "00000000000000000000ffff" + vh.Hex(r.Bytes(4))
		default:
			ip = vh.Hex(r.Bytes(4))
		}
		hv := "-"
		if !strings.Contains(spec, ":") && r.Chance(3, 5) {
			hv = genField(r, true)
			if r.Chance(1, 4) {
				hv = fixedHv
			}
		}
		ck := "n"
		switch r.Intn(6) {
		case 0, 1:
		case 2:
			ck = "-"
		default:
			ck = genField(r, true)
		}
		uri := "-"
		if r.Chance(5, 6) {
			uri = vh.Hex([]byte("/" + string(mustUnhex(genField(r, true))) + r.Pick("", "?a=1", "/x")))
		}
		reqs = append(reqs, ip+"|"+hv+"|"+ck+"|"+uri)
	}
	// histories: the same requests again after reloads that change nothing, change weights / members, and after a
	// backend went down and came back
	history := r.Chance(1, 2)
	var controls []string
	if history {
		again := strings.Join(reqs, ",")
		cur := append([]sub(nil), subs...)
		gconf := func(ss []sub) string {
			p := make([]string, len(ss))
			for i, s := range ss {
				p[i] = fmt.Sprintf("%s=%d", s.name, s.w)
			}
			return "R:" + strings.Join(p, "/")
		}
		for k := r.Range(1, 3); k > 0; k-- {
			switch r.Intn(6) {
			case 0: // identical gslb conf
				controls = append(controls, gconf(cur), again)
			case 1: // identical backend list of one sub-cluster, other order
				i := r.Intn(len(cur))
				if len(cur[i].bs) > 0 {
					controls = append(controls, fmt.Sprintf("B:%s=%s", cur[i].name, strings.ReplaceAll(fmtBs(shuffle(r, cur[i].bs)), ",", "+")), again)
				}
			case 2: // one backend replaced by another (same count), weights changed
				i := r.Intn(len(cur))
				if len(cur[i].bs) > 0 {
					nb := append([]be(nil), cur[i].bs...)
					nb[r.Intn(len(nb))] = be{fmt.Sprintf("10.9.%d.%d:80", r.Intn(3), r.Range(1, 250)), r.Range(1, 6) * 100, 1}
					if r.Chance(1, 2) {
						nb[r.Intn(len(nb))].w = r.Range(1, 9) * 100
					}
					if _, ok := parseBs(fmtBs(nb)); ok {
						cur[i].bs = nb
						controls = append(controls, fmt.Sprintf("B:%s=%s", cur[i].name, strings.ReplaceAll(fmtBs(shuffle(r, nb)), ",", "+")), again)
					}
				}
			case 3: // sub-cluster weights changed / one added / one removed (total stays > 0)
				next := append([]sub(nil), cur...)
				if len(next) > 1 && r.Chance(1, 3) {
					j := r.Intn(len(next))
					next = append(next[:j:j], next[j+1:]...)
				}
				for j := range next {
					if r.Chance(1, 2) {
						next[j].w = []int{0, -3, 1, 2, 5, 40, 100}[r.Intn(7)]
					}
				}
				if r.Chance(1, 2) {
					nm := subNames[r.Intn(len(subNames)-1)]
					dup := false
					for _, x := range next {
						dup = dup || x.name == nm
					}
					if !dup {
						next = append(next, sub{nm, r.Range(1, 50), nil})
					}
				}
				pos := false
				for _, x := range next {
					pos = pos || x.w > 0
				}
				if pos {
					cur = next
					controls = append(controls, gconf(shuffleSubs(r, cur)), again)
				}
			default: // a backend goes down, requests, comes back, requests: the mapping must be the old one again
				i := r.Intn(len(cur))
				if len(cur[i].bs) > 0 {
					b := cur[i].bs[r.Intn(len(cur[i].bs))]
					controls = append(controls, fmt.Sprintf("A:%s:%s=0", cur[i].name, b.addr), again,
						fmt.Sprintf("A:%s:%s=%d", cur[i].name, b.addr, b.a), again)
				}
			}
		}
		if len(controls) == 0 {
			history = false
		}
	}
	emit := func(perm bool) {
		ss := make([]string, len(subs))
		order := r.Intn(2) == 0
		for i := range subs {
			s := subs[i]
			if perm && order {
				s = subs[len(subs)-1-i]
			}
			bs := s.bs
			if perm {
				bs = shuffle(r, bs)
			}
			ss[i] = fmt.Sprintf("%s=%d=%s", s.name, s.w, fmtBs(bs))
		}
		script := strings.Join(reqs, ",")
		if history {
			script = strings.Join(reqs, ",") + "," + strings.Join(controls, ",")
		}
		queue = append(queue, fmt.Sprintf("gs %d %d %s %s %s", sticky, strat, vh.Hex([]byte(spec)), strings.Join(ss, ";"), script))
	}
	emit(false)
	if r.Chance(1, 2) {
		emit(true)
	}
}

type sub struct {
	name string
	w    int
	bs   []be
}

func shuffleSubs(r *vh.Rand, ss []sub) []sub {
	out := append([]sub(nil), ss...)
	for i := len(out) - 1; i > 0; i-- {
		j := r.Intn(i + 1)
		out[i], out[j] = out[j], out[i]
	}
	return out
}

func mustUnhex(s string) []byte { b, _ := vh.UnHex(s); return b }

func gen(r *vh.Rand) string {
	for len(queue) == 0 {
		if r.Chance(3, 5) {
			genSticky(r)
		} else {
			genGslb(r)
		}
	}
	op := queue[0]
	queue = queue[1:]
	return op
}

// ---------- execution

func balSticky(rr *bal_slb.BalanceRR, keysField string) string {
	var out []string
	for _, kh := range strings.Split(keysField, ",") {
		k, ok := vh.UnHex(kh)
		if !ok {
			return "bad-op"
		}
		if k == nil {
			k = []byte{}
		}
		b, err := rr.Balance(bal_slb.WrrSticky, k)
		switch {
		case err == nil:
			out = append(out, b.AddrInfo)
		case strings.Contains(err.Error(), "all backend is down"):
			out = append(out, "E:down")
		case strings.Contains(err.Error(), "stickyBalance fail"):
			out = append(out, "E:fail")
		default:
			out = append(out, "E:other")
		}
	}
	return strings.Join(out, ",")
}

func execSticky(f []string) string {
	if len(f) != 3 {
		return "bad-op"
	}
	bs, ok := parseBs(f[1])
	if !ok {
		return "bad-op"
	}
	rr := bal_slb.NewBalanceRR("sub")
	rr.Init(mkConf(bs))
	applyState(rr, bs)
	return balSticky(rr, f[2])
}

// su <old> <new> <keys>: Init(old), one sticky Balance (sorts, sets the sorted flag), Update(new), state of new, keys
func execStickyUpdate(f []string) string {
	if len(f) != 4 {
		return "bad-op"
	}
	old, ok1 := parseBs(f[1])
	bs, ok2 := parseBs(f[2])
	if !ok1 || !ok2 {
		return "bad-op"
	}
	rr := bal_slb.NewBalanceRR("sub")
	rr.Init(mkConf(old))
	applyState(rr, old)
	rr.Balance(bal_slb.WrrSticky, []byte("warm-up"))
	rr.Update(mkConf(bs))
	applyState(rr, bs)
	return balSticky(rr, f[3])
}

func execGslb(f []string) string {
	if len(f) != 6 {
		return "bad-op"
	}
	sticky := f[1] == "1"
	strat, err := strconv.Atoi(f[2])
	if err != nil || strat < 0 || strat > 3 {
		return "bad-op"
	}
	specB, ok := vh.UnHex(f[3])
	if !ok || len(specB) == 0 {
		return "bad-op"
	}
	spec := string(specB)
	gconf := gslb_conf.GslbClusterConf{}
	cb := cluster_table_conf.ClusterBackend{}
	subBs := map[string][]be{}
	for _, s := range strings.Split(f[4], ";") {
		p := strings.Split(s, "=")
		if len(p) != 3 || p[0] == "" {
			return "bad-op"
		}
		w, err := strconv.Atoi(p[1])
		bs, ok := parseBs(p[2])
		if err != nil || !ok {
			return "bad-op"
		}
		if _, dup := gconf[p[0]]; dup {
			return "bad-op"
		}
		gconf[p[0]] = w
		cb[p[0]] = mkConf(bs)
		subBs[p[0]] = bs
	}
	bal := bal_gslb.NewBalanceGslb("cluster")
	if err := bal.Init(gconf); err != nil {
		return "init-err"
	}
	bal.BackendInit(cb)
	cross, rmax, mode := 0, 2, cluster_conf.BalanceModeWrr
	bal.SetGslbBasic(cluster_conf.GslbBasicConf{CrossRetry: &cross, RetryMax: &rmax, BalanceMode: &mode,
		HashConf: &cluster_conf.HashConf{HashStrategy: &strat, HashHeader: &spec, SessionSticky: &sticky}})
	for name, bs := range subBs {
		applyState(bal.VerifC02SubRR(name), bs)
	}
	var out []string
	for _, rq := range strings.Split(f[5], ",") {
		if strings.HasPrefix(rq, "R:") { // gslb Reload with a new sub-cluster weight table
			conf := gslb_conf.GslbClusterConf{}
			for _, t := range strings.Split(rq[2:], "/") {
				q := strings.Split(t, "=")
				if len(q) != 2 || q[0] == "" {
					return "bad-op"
				}
				w, err := strconv.Atoi(q[1])
				if _, dup := conf[q[0]]; err != nil || dup {
					return "bad-op"
				}
				conf[q[0]] = w
			}
			if err := bal.Reload(conf); err != nil {
				return "reload-err"
			}
			continue
		}
		if strings.HasPrefix(rq, "B:") { // BackendReload of one sub-cluster with a complete backend list
			q := strings.SplitN(rq[2:], "=", 2)
			if len(q) != 2 {
				return "bad-op"
			}
			bs, ok := parseBs(strings.ReplaceAll(q[1], "+", ","))
			rr := bal.VerifC02SubRR(q[0])
			if !ok || rr == nil {
				return "bad-op"
			}
			bal.BackendReload(cluster_table_conf.ClusterBackend{q[0]: mkConf(bs)})
			applyState(rr, bs)
			continue
		}
		if strings.HasPrefix(rq, "A:") { // A:<sub>:<addrinfo>=<0|1>  availability flip (health checker)
			eq := strings.LastIndexByte(rq, '=')
			c := strings.IndexByte(rq[2:], ':')
			if eq < 0 || c < 0 || 2+c+1 > eq {
				return "bad-op"
			}
			rr := bal.VerifC02SubRR(rq[2 : 2+c])
			if rr == nil {
				return "bad-op"
			}
			found := false
			for _, h := range rr.VerifC02Backends() {
				if h.AddrInfo == rq[2+c+1:eq] {
					h.SetAvail(rq[eq+1:] == "1")
					found = true
				}
			}
			if !found {
				return "bad-op"
			}
			continue
		}
		p := strings.Split(rq, "|")
		if len(p) != 4 {
			return "bad-op"
		}
		mk := func() *bfe_basic.Request {
			req := new(bfe_basic.Request)
			req.HttpRequest = new(bfe_http.Request)
			req.HttpRequest.Header = make(bfe_http.Header)
			if p[0] != "n" {
				ip, ok := vh.UnHex(p[0])
				if !ok {
					return nil
				}
				if ip == nil {
					ip = []byte{}
				}
				req.ClientAddr = &net.TCPAddr{IP: net.IP(ip), Port: 1234}
			}
			if p[1] != "-" {
				hv, ok := vh.UnHex(p[1])
				if !ok || !plain(hv) {
					return nil
				}
				if strings.Contains(spec, ":") {
					req.HttpRequest.Header[spec] = []string{string(hv)}
				} else {
					req.HttpRequest.Header.Set(spec, string(hv))
					req.HttpRequest.Header.Add(spec, "DECOYSECOND") // Header.Get returns the first value
					req.HttpRequest.Header.Set(spec+"-X", "DECOYOTHER")
				}
			}
			if p[2] != "n" {
				cv, ok := vh.UnHex(p[2])
				if !ok || !alnum(cv) {
					return nil
				}
				ckName, isCk := cluster_conf.GetCookieKey(spec)
				if !isCk || ckName == "" {
					ckName = "sid"
				}
				// decoys around the real cookie: the name in the other letter case, names that merely contain it, and a
				// later duplicate (the first cookie of a name wins)
				req.HttpRequest.Header.Set("Cookie", "x=1; "+swapCase(ckName)+"=DECOYCASE; "+ckName+"x=DECOYSUFFIX; x"+ckName+
					"=DECOYPREFIX; "+ckName+"="+string(cv)+"; y=2; "+ckName+"=DECOYDUP")
			}
			if p[3] != "-" {
				u, ok := vh.UnHex(p[3])
				if !ok {
					return nil
				}
				req.HttpRequest.RequestURI = string(u)
			}
			return req
		}
		r1, r2, r3 := mk(), mk(), mk()
		if r1 == nil {
			return "bad-op"
		}
		k1, k2 := bal.VerifC02HashKey(r1), bal.VerifC02HashKey(r2)
		key := vh.Hex(k1)
		if !bytes.Equal(k1, k2) {
			key = "rnd"
		}
		b, err := bal.Balance(r3)
		var res string
		switch {
		case err == nil && sticky:
			res = b.AddrInfo
		case err == nil:
			res = "*"
		case err == bfe_basic.ErrBkNoBackend:
			res = "E"
		default:
			res = "err:" + err.Error()
		}
		sub := r3.Backend.SubclusterName
		if sub == "" {
			sub = "?"
		}
		out = append(out, key+";"+sub+";"+res)
	}
	return strings.Join(out, ",")
}

// swapCase flips the case of every ASCII letter (cookie names are case sensitive); unchanged names get a suffix
func swapCase(s string) string {
	b := []byte(s)
	for i, c := range b {
		switch {
		case c >= 'a' && c <= 'z':
			b[i] = c - 32
		case c >= 'A' && c <= 'Z':
			b[i] = c + 32
		}
	}
	if string(b) == s {
		return s + "_"
	}
	return string(b)
}

func alnum(b []byte) bool {
	for _, c := range b {
		if !(c >= '0' && c <= '9' || c >= 'a' && c <= 'z' || c >= 'A' && c <= 'Z') {
			return false
		}
	}
	return true
}

func plain(b []byte) bool {
	for _, c := range b {
		if c < 0x21 || c > 0x7e {
			return false
		}
	}
	return true
}

func exec(op string) string {
	f := strings.Split(op, " ")
	switch f[0] {
	case "st":
		return execSticky(f)
	case "su":
		return execStickyUpdate(f)
	case "gs":
		return execGslb(f)
	}
	return "bad-op"
}

// keysFor returns one key per residue 0..m-1 of murmur3.Sum64(key) mod m
func keysFor(r *vh.Rand, m int) [][]byte {
	got := make([][]byte, m)
	n := 0
	for tries := 0; n < m && tries < 400*m; tries++ {
		k := r.Bytes(4)
		if x := int(murmur3.Sum64(k) % uint64(m)); got[x] == nil {
			got[x] = k
			n++
		}
	}
	var out [][]byte
	for _, k := range got {
		if k != nil {
			out = append(out, k)
		}
	}
	return out
}

func main() {
	vh.Pre = func(emit func(string), thorough bool) {
		r := vh.NewRand(20240917)
		// sticky level: EVERY residue 0..W-1 (hence every cumulative boundary c_i-1, c_i) for a few weight vectors
		vecs := [][]int{{1}, {1, 1}, {1, 2, 3}, {3, 1, 2}, {2, 2, 2, 1}, {5, 1}, {1, 5}, {4, 4}, {100, 200, 300}, {300, 200, 100}}
		if thorough {
			vecs = append(vecs, []int{700, 100, 200, 500}, []int{1, 1, 1, 1, 1, 1, 1}, []int{999, 1})
		}
		for _, v := range vecs {
			var bs []be
			W := 0
			for i, w := range v {
				bs = append(bs, be{fmt.Sprintf("10.0.0.%d:80", 9-i), w, 1}) // listed in descending address order
				W += w
				if i == 0 {
					bs = append(bs, be{"10.0.0.50:80", 7, 0}, be{"10.0.0.51:80", 0, 1}) // ineligible ones in between
				}
			}
			emit("st " + fmtBs(bs) + " " + hexKeys(keysFor(r, W)))
		}
		// two levels with different moduli: sub-clusters 2:3 (mod 5), backends 3:4 (mod 7) and 1:2 (mod 3):
		// all residues mod 105 = every combination of the three residues
		var reqs []string
		for _, k := range keysFor(r, 105) {
			reqs = append(reqs, vh.Hex(k)+"|-|n|-")
		}
		for _, sticky := range []int{1, 0} {
			emit(fmt.Sprintf("gs %d 1 782d756964 b.two=3=10.0.1.2:80/4/1,10.0.1.1:80/3/1;a.one=2=10.0.2.1:80/1/1,10.0.2.2:80/2/1;z.off=0=10.0.3.1:80/1/1;n.neg=-4=10.0.4.1:80/1/1 %s",
				sticky, strings.Join(reqs, ",")))
		}
	}
	vh.Main(gen, exec)
}
