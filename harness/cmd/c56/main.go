// C56: DoH request -> dns.Msg with EDNS client-subnet — drives the real mod_doh.RequestToDnsMsg.
//
// op  `doh <method> <dns> <body> <ra> <ca> <w> <u> [<rs>]`   rs = read script of the body (see scriptReader), default `-`
//   method  HTTP method;  dns = `none` | comma list of the values of query parameter "dns" (each hex of the raw value)
//   body    hex of the request body;  ra / ca = `nil` | hex of RemoteAddr.IP / ClientAddr.IP (any length)
//   w       hex of the bytes the unpack oracle `u` speaks about (`=` : the body)
//   u       oracle, produced by miekg/dns in gen and re-checked in exec: `E` (Unpack(w) fails) | summary(Unpack(w))
// result  `err` | summary(returned msg) [+ ` lim=<maxPostMsgLength>` for POST] | `bad-oracle`
// summary = <hdr>/<questions>/<answer>/<ns>/<extra>/<p0|p1>   (p = the message can be packed, as dns.Client.Exchange must)
//   extra item: `O:<udpsize>:<ttl>:<opt>+<opt>` (OPT; opt = `<code>.<hex data>`, client-subnet = `8.<family>.<mask>.<scope>.<hex addr>`)
//               | `R:<hex of RR.String()>`
package main

import (
	"bytes"
	"encoding/base64"
	"fmt"
	"io"
	"io/ioutil"
	"net"
	"net/url"
	"strconv"
	"strings"

	"bfeverif/harness/internal/vh"
	"github.com/bfenetworks/bfe/bfe_basic"
	"github.com/bfenetworks/bfe/bfe_http"
	"github.com/bfenetworks/bfe/bfe_modules/mod_doh"
	"github.com/miekg/dns"
)

func b01(b bool) int {
	if b {
		return 1
	}
	return 0
}

func hexs(s string) string { return vh.Hex([]byte(s)) }

func optSummary(o *dns.OPT) string {
	var os []string
	for _, e := range o.Option {
		if s, ok := e.(*dns.EDNS0_SUBNET); ok {
			os = append(os, fmt.Sprintf("%d.%d.%d.%d.%s", s.Code, s.Family, s.SourceNetmask, s.SourceScope, vh.Hex(s.Address)))
		} else {
			os = append(os, fmt.Sprintf("%d.%s", e.Option(), hexs(e.String())))
		}
	}
	return fmt.Sprintf("O:%d:%d:%s", o.Hdr.Class, o.Hdr.Ttl, strings.Join(os, "+"))
}

func rrs(l []dns.RR) string {
	var xs []string
	for _, r := range l {
		if o, ok := r.(*dns.OPT); ok {
			xs = append(xs, optSummary(o))
		} else if r == nil {
			xs = append(xs, "R:nil")
		} else {
			xs = append(xs, "R:"+hexs(r.String()))
		}
	}
	if len(xs) == 0 {
		return "-"
	}
	return strings.Join(xs, ",")
}

func summary(m *dns.Msg) string {
	h := m.MsgHdr
	hdr := fmt.Sprintf("%d.%d.%d.%d%d%d%d%d%d%d.%d", h.Id, b01(h.Response), h.Opcode, b01(h.Authoritative), b01(h.Truncated),
		b01(h.RecursionDesired), b01(h.RecursionAvailable), b01(h.Zero), b01(h.AuthenticatedData), b01(h.CheckingDisabled), h.Rcode)
	var qs []string
	for _, q := range m.Question {
		qs = append(qs, fmt.Sprintf("%s.%d.%d", hexs(q.Name), q.Qtype, q.Qclass))
	}
	q := "-"
	if len(qs) > 0 {
		q = strings.Join(qs, ",")
	}
	_, perr := m.Copy().Pack()
	return fmt.Sprintf("%s/%s/%s/%s/%s/p%d", hdr, q, rrs(m.Answer), rrs(m.Ns), rrs(m.Extra), b01(perr == nil))
}

func oracle(w []byte) string {
	m, err := mod_doh.VerifUnpackMsg(w)
	if err != nil {
		return "E"
	}
	return summary(m)
}

func ipOf(s string) (*net.TCPAddr, bool) {
	if s == "nil" {
		return nil, true
	}
	b, ok := vh.UnHex(s)
	if !ok {
		return nil, false
	}
	return &net.TCPAddr{IP: net.IP(append([]byte{}, b...)), Port: 12345}, true
}

// ---- response direction: op `rsp <answer ttls> <authority ttls> <extra ttls> <packed length | E>` (ttl lists `-` or comma
// separated; an extra ttl 99999 adds an OPT whose client-subnet option cannot be packed); the last field is the
// oracle len(reply.Pack()) re-checked here.  result `<status> <content-type> <max-age> <content-length>` | `err`

func ttlList(s string) ([]uint32, bool) {
	if s == "-" {
		return nil, true
	}
	var out []uint32
	for _, x := range strings.Split(s, ",") {
		var v uint32
		if _, err := fmt.Sscanf(x, "%d", &v); err != nil {
			return nil, false
		}
		out = append(out, v)
	}
	return out, true
}

func buildReply(an, ns, ex []uint32) *dns.Msg {
	m := new(dns.Msg)
	m.SetQuestion("q.example.", dns.TypeA)
	m.Response = true
	for i, t := range an {
		rr, _ := dns.NewRR(fmt.Sprintf("q.example. %d IN A 192.0.2.%d", t, i%250+1))
		m.Answer = append(m.Answer, rr)
	}
	for i, t := range ns {
		rr, _ := dns.NewRR(fmt.Sprintf("example. %d IN NS ns%d.example.", t, i))
		m.Ns = append(m.Ns, rr)
	}
	for i, t := range ex {
		if t == 99999 {
			o := new(dns.OPT)
			o.Hdr.Name, o.Hdr.Rrtype = ".", dns.TypeOPT
			o.Option = append(o.Option, &dns.EDNS0_SUBNET{Code: dns.EDNS0SUBNET, Family: 7, SourceNetmask: 8, Address: net.IP{1, 2, 3, 4}})
			m.Extra = append(m.Extra, o)
			continue
		}
		rr, _ := dns.NewRR(fmt.Sprintf("ns%d.example. %d IN AAAA 2001:db8::%x", i, t, i+1))
		m.Extra = append(m.Extra, rr)
	}
	return m
}

func packLen(m *dns.Msg) string {
	b, err := m.Copy().Pack()
	if err != nil {
		return "E"
	}
	return fmt.Sprint(len(b))
}

func execRsp(f []string) string {
	if len(f) != 5 {
		return "bad-op"
	}
	an, ok1 := ttlList(f[1])
	ns, ok2 := ttlList(f[2])
	ex, ok3 := ttlList(f[3])
	if !ok1 || !ok2 || !ok3 {
		return "bad-op"
	}
	m := buildReply(an, ns, ex)
	if packLen(m) != f[4] {
		return "bad-oracle"
	}
	req := &bfe_basic.Request{HttpRequest: &bfe_http.Request{Method: "GET", URL: &url.URL{Path: "/dns-query"}}}
	resp, err := mod_doh.DnsMsgToResponse(req, m)
	if err != nil {
		return "err"
	}
	b, _ := ioutil.ReadAll(resp.Body)
	cc := resp.Header.Get("Cache-Control")
	if !strings.HasPrefix(cc, "max-age=") {
		return "no-max-age:" + hexs(cc)
	}
	cl := resp.Header.Get("Content-Length")
	if cl != fmt.Sprint(len(b)) {
		cl = "mismatch"
	}
	return fmt.Sprintf("%d %s %s %s", resp.StatusCode, resp.Header.Get("Content-Type"), cc[len("max-age="):], cl)
}

func genRsp(r *vh.Rand) string {
	lst := func(maxn int) (string, []uint32) {
		n := r.Intn(maxn + 1)
		var xs []string
		var vs []uint32
		for i := 0; i < n; i++ {
			v := uint32(pick(r, 0, 1, 30, 60, 300, 3600, 86400, 2147483647, 4294967295, r.Intn(100000)))
			if v == 99999 {
				v = 5
			}
			vs = append(vs, v)
			xs = append(xs, fmt.Sprint(v))
		}
		if n == 0 {
			return "-", nil
		}
		return strings.Join(xs, ","), vs
	}
	as, an := lst(5)
	nss, ns := lst(2)
	es, ex := lst(2)
	if r.Chance(1, 12) {
		ex = append(ex, 99999)
		if es == "-" {
			es = "99999"
		} else {
			es += ",99999"
		}
	}
	return fmt.Sprintf("rsp %s %s %s %s", as, nss, es, packLen(buildReply(an, ns, ex)))
}

// scriptReader is the request body: it returns the body in the pieces the script says — sizes `n.n.n` (0 = an empty read
// with a nil error), then the rest in one piece; a trailing `e` delivers io.EOF together with the last data.
type scriptReader struct {
	b      []byte
	sizes  []int
	eofNow bool
}

func newScriptReader(b []byte, script string) (io.ReadCloser, bool) {
	if script == "-" {
		return ioutil.NopCloser(bytes.NewReader(b)), true
	}
	sr := &scriptReader{b: b}
	if strings.HasSuffix(script, "e") {
		sr.eofNow = true
		script = script[:len(script)-1]
	}
	if script != "" {
		for _, x := range strings.Split(script, ".") {
			n, err := strconv.Atoi(x)
			if err != nil || n < 0 {
				return nil, false
			}
			sr.sizes = append(sr.sizes, n)
		}
	}
	return ioutil.NopCloser(sr), true
}

func (s *scriptReader) Read(p []byte) (int, error) {
	if len(s.b) == 0 {
		return 0, io.EOF
	}
	n := len(s.b)
	if len(s.sizes) > 0 {
		n = s.sizes[0]
		s.sizes = s.sizes[1:]
		if n == 0 {
			return 0, nil
		}
	}
	if n > len(s.b) {
		n = len(s.b)
	}
	if n > len(p) {
		n = len(p)
	}
	copy(p, s.b[:n])
	s.b = s.b[n:]
	if len(s.b) == 0 && s.eofNow {
		return n, io.EOF
	}
	return n, nil
}

// convert runs one `doh` request through the real RequestToDnsMsg and returns a closure that renders the result LATER:
// the returned *dns.Msg is kept as it is (it is what dnsFetcher packs and forwards afterwards), the request's own
// buffers are scribbled over after the conversion, and the summary (incl. Pack) is taken when `late()` is called.
// buildReq builds the bfe request of a `doh` op (f = its fields); early != "" means the op is not executable.
func buildReq(f []string) (req *bfe_basic.Request, body []byte, method string, early string) {
	if len(f) == 8 {
		f = append(f, "-")
	}
	if len(f) != 9 || f[0] != "doh" {
		return nil, nil, "", "bad-op"
	}
	method = f[1]
	if method == "-" {
		method = ""
	}
	q := url.Values{}
	q.Add("ct", "application/dns-message")
	if f[2] != "none" {
		for _, v := range strings.Split(f[2], ",") {
			b, ok := vh.UnHex(v)
			if !ok {
				return nil, nil, "", "bad-op"
			}
			q.Add("dns", string(b))
		}
	}
	body, ok := vh.UnHex(f[3])
	ra, ok1 := ipOf(f[4])
	ca, ok2 := ipOf(f[5])
	if !ok || !ok1 || !ok2 {
		return nil, nil, "", "bad-op"
	}
	w := body
	if f[6] != "=" {
		if w, ok = vh.UnHex(f[6]); !ok {
			return nil, nil, "", "bad-op"
		}
	}
	if oracle(w) != f[7] {
		return nil, nil, "", "bad-oracle"
	}
	body = append([]byte(nil), body...)
	rd, ok := newScriptReader(body, f[8])
	if !ok {
		return nil, nil, "", "bad-op"
	}
	hr := &bfe_http.Request{Method: method, URL: &url.URL{Path: "/dns-query", RawQuery: q.Encode()},
		Body: rd, Header: bfe_http.Header{}}
	return &bfe_basic.Request{HttpRequest: hr, RemoteAddr: ra, ClientAddr: ca}, body, method, ""
}

// convert runs one `doh` request through the real RequestToDnsMsg and returns a closure that renders the result LATER:
// the returned *dns.Msg is kept as it is (it is what dnsFetcher packs and forwards afterwards), the request's own
// buffers are scribbled over after the conversion, and the summary (incl. Pack) is taken when `late()` is called.
func convert(f []string) (late func() string) {
	req, body, method, early := buildReq(f)
	if early != "" {
		return func() string { return early }
	}
	m, err := mod_doh.RequestToDnsMsg(req)
	// the request is gone: its buffers are reused by whoever comes next
	for i := range body {
		body[i] = 0xA5
	}
	req.HttpRequest.URL.RawQuery = ""
	sfx := ""
	if method == "POST" {
		sfx = fmt.Sprintf(" lim=%d", mod_doh.VerifMaxPostMsgLength())
	}
	return func() string {
		if err != nil {
			return "err" + sfx
		}
		return summary(m) + sfx
	}
}

// ---- fx: the module's real handler: condition -> IsSecure -> DnsClient.Fetch (RequestToDnsMsg, exchangeWithRetry over UDP to
// a fake upstream on loopback, DnsMsgToResponse).
// op `fx <secure 0|1> <path hex> <retryMax> <upstream script> <answer ttls>;<doh op>`
//   upstream script: one letter per received query: r = proper reply, g = garbage datagram, i = reply with a wrong id
//   (after the script: r).  No behaviour depends on a timeout (client timeout 30 s).
// result `<goon|resp> <status|-> sends=<n> fwd=<same|diff|-> <content-type|-> <max-age|-> body=<same|diff|->`
//   fwd = every datagram the upstream received equals Pack() of the message RequestToDnsMsg returns for this request

var (
	upConn   net.PacketConn
	upPkts   = make(chan []byte, 64)
	upScript = make(chan string, 1)
	upTTLs   []uint32
	upReply  []byte // the proper reply last sent
	handlers = map[string]func(*bfe_basic.Request) (int, *bfe_http.Response){}
)

func upInit() {
	if upConn != nil {
		return
	}
	var err error
	if upConn, err = net.ListenPacket("udp", "127.0.0.1:0"); err != nil {
		panic(err)
	}
	go func() {
		buf := make([]byte, 65536)
		script := ""
		for {
			n, addr, err := upConn.ReadFrom(buf)
			if err != nil {
				return
			}
			select {
			case s := <-upScript:
				script = s
			default:
			}
			pkt := append([]byte(nil), buf[:n]...)
			c := byte('r')
			if len(script) > 0 {
				c, script = script[0], script[1:]
			}
			var out []byte
			id := uint16(0)
			if n >= 2 {
				id = uint16(pkt[0])<<8 | uint16(pkt[1])
			}
			switch c {
			case 'g':
				out = []byte{1, 2, 3}
			case 'i':
				m := buildReply(upTTLs, nil, nil)
				m.Id = id + 1
				out, _ = m.Pack()
			default:
				m := buildReply(upTTLs, nil, nil)
				m.Id = id
				out, _ = m.Pack()
				upReply = out
			}
			upPkts <- pkt
			upConn.WriteTo(out, addr)
		}
	}()
}

func execFx(op string) string {
	parts := strings.SplitN(strings.TrimPrefix(op, "fx "), ";", 2)
	if len(parts) != 2 {
		return "bad-op"
	}
	h := strings.Fields(parts[0])
	if len(h) != 5 {
		return "bad-op"
	}
	path, ok := vh.UnHex(h[1])
	retry, err := strconv.Atoi(h[2])
	ttls, ok2 := ttlList(h[4])
	if !ok || !ok2 || err != nil || retry < 0 || retry > 5 {
		return "bad-op"
	}
	sub := strings.Fields(parts[1])
	req, _, _, early := buildReq(sub)
	if early != "" {
		return early
	}
	req2, _, _, _ := buildReq(sub) // an identical request, converted separately: what must be forwarded
	var want []byte
	if m2, e2 := mod_doh.RequestToDnsMsg(req2); e2 == nil {
		want, _ = m2.Pack()
	}
	upInit()
	key := h[2]
	hd := handlers[key]
	if hd == nil {
		if hd, err = mod_doh.VerifHandler(`req_path_in("/dns-query", false)`, &mod_doh.DnsConf{Address: upConn.LocalAddr().String(),
			RetryMax: retry, Timeout: 30000}); err != nil {
			return "bad-cond"
		}
		handlers[key] = hd
	}
	req.HttpRequest.URL.Path = string(path)
	req.Session = &bfe_basic.Session{IsSecure: h[0] == "1"}
	for len(upPkts) > 0 {
		<-upPkts
	}
	upTTLs = ttls
	upReply = nil
	script := h[3]
	if script == "-" {
		script = ""
	}
	select { // a script left over from a case that ended in a panic
	case <-upScript:
	default:
	}
	upScript <- script + "."
	ret, resp := hd(req)
	select { // the script was not consumed when nothing was sent
	case <-upScript:
	default:
	}
	sends, fwd := 0, "-"
	for len(upPkts) > 0 {
		p := <-upPkts
		sends++
		if fwd == "-" {
			fwd = "same"
		}
		if !bytes.Equal(p, want) {
			fwd = "diff"
		}
	}
	rs := "goon"
	if ret != 1 { // bfe_module.BfeHandlerGoOn
		rs = "resp"
	}
	if resp == nil {
		return fmt.Sprintf("%s - sends=%d fwd=%s - - body=-", rs, sends, fwd)
	}
	ct, ma, bd := "-", "-", "-"
	if resp.StatusCode == 200 {
		ct = resp.Header.Get("Content-Type")
		ma = resp.Header.Get("Cache-Control")
		b, _ := ioutil.ReadAll(resp.Body)
		bd = "diff"
		if bytes.Equal(b, upReply) && resp.Header.Get("Content-Length") == strconv.Itoa(len(b)) {
			bd = "same"
		}
	}
	return fmt.Sprintf("%s %d sends=%d fwd=%s %s %s body=%s", rs, resp.StatusCode, sends, fwd, ct, ma, bd)
}

func genFx(r *vh.Rand) string {
	sec := "1"
	if r.Chance(1, 8) {
		sec = "0"
	}
	path := "/dns-query"
	if r.Chance(1, 8) {
		path = r.Pick("/other", "/dns-query/", "/DNS-QUERY", "")
	}
	retry := r.Intn(4)
	var sc []byte
	for i, n := 0, r.Intn(6); i < n; i++ {
		sc = append(sc, "rggi"[r.Intn(4)])
	}
	script := string(sc)
	if script == "" {
		script = "-"
	}
	var xs []string
	for i, n := 0, r.Intn(5); i < n; i++ {
		xs = append(xs, strconv.Itoa(pick(r, 0, 1, 30, 60, 300, 3600, 86400, 2147483647, r.Intn(100000))))
	}
	tt := "-"
	if len(xs) > 0 {
		tt = strings.Join(xs, ",")
	}
	return fmt.Sprintf("fx %s %s %d %s %s;%s", sec, hexs(path), retry, script, tt, genDoh(r))
}

// op `bat <doh op>;<doh op>;...` : all requests are converted first (the messages are held, as concurrent requests
// waiting for their upstream exchange are), then every held message is summarised / packed; result = the single
// results joined by `;`.
func execBatch(op string) string {
	subs := strings.Split(strings.TrimPrefix(op, "bat "), ";")
	var lates []func() string
	for _, s := range subs {
		lates = append(lates, convert(strings.Fields(s)))
	}
	var out []string
	for _, l := range lates {
		out = append(out, l())
	}
	return strings.Join(out, ";")
}

func exec(op string) string {
	if strings.HasPrefix(op, "bat ") {
		return execBatch(op)
	}
	if strings.HasPrefix(op, "fx ") {
		return execFx(op)
	}
	f := strings.Fields(op)
	if len(f) > 0 && f[0] == "rsp" {
		return execRsp(f)
	}
	return convert(f)()
}

// ---- generation

func pick(r *vh.Rand, xs ...int) int { return xs[r.Intn(len(xs))] }

func genIP(r *vh.Rand) string {
	switch r.Intn(16) {
	case 0:
		return "nil"
	case 1:
		return vh.Hex(r.Bytes(pick(r, 0, 1, 5, 15, 17))) // not an IP
	case 2, 3, 4, 5, 6:
		return vh.Hex(r.Bytes(4)) // IPv4, 4-byte form (accepted IPv4 connection)
	case 7, 8, 9:
		return vh.Hex(append([]byte{0, 0, 0, 0, 0, 0, 0, 0, 0, 0, 0xff, 0xff}, r.Bytes(4)...)) // IPv4, 16-byte form (net.ParseIP / dual-stack)
	case 10:
		b := make([]byte, 16) // near-mapped: not IPv4
		copy(b[12:], r.Bytes(4))
		b[pick(r, 10, 11)] = 0xff
		if r.Bool() {
			b[r.Intn(10)] = 1
			b[10], b[11] = 0xff, 0xff
		}
		return vh.Hex(b)
	default:
		b := r.Bytes(16)
		b[0], b[1] = 0x20, 0x01
		return vh.Hex(b)
	}
}

func genName(r *vh.Rand) string {
	n := r.Range(1, 4)
	var ls []string
	for i := 0; i < n; i++ {
		l := r.Range(1, 12)
		b := make([]byte, l)
		for j := range b {
			b[j] = "abcdefghijklmnopqrstuvwxyz0123456789-"[r.Intn(37)]
		}
		ls = append(ls, string(b))
	}
	return strings.Join(ls, ".") + "."
}

func genMsg(r *vh.Rand) (*dns.Msg, bool) {
	m := new(dns.Msg)
	m.SetQuestion(genName(r), uint16(pick(r, 1, 28, 15, 16, 33, 65, 255)))
	m.Id = uint16(r.Intn(65536))
	m.RecursionDesired = !r.Chance(1, 8)
	if r.Chance(1, 10) {
		m.CheckingDisabled = true
	}
	if r.Chance(1, 10) {
		m.AuthenticatedData = true
	}
	if r.Chance(1, 12) {
		m.Question = append(m.Question, dns.Question{Name: genName(r), Qtype: 1, Qclass: 1})
	}
	if r.Chance(1, 25) {
		m.Question = nil
	}
	if r.Chance(1, 10) { // response-like
		m.Response = true
		rr, _ := dns.NewRR(genName(r) + " 60 IN A 192.0.2." + fmt.Sprint(r.Intn(256)))
		m.Answer = append(m.Answer, rr)
	}
	if r.Chance(1, 10) {
		rr, _ := dns.NewRR(genName(r) + " 300 IN NS ns." + genName(r))
		m.Ns = append(m.Ns, rr)
	}
	if r.Chance(1, 8) {
		rr, _ := dns.NewRR(genName(r) + " 30 IN AAAA 2001:db8::" + fmt.Sprintf("%x", r.Intn(65536)))
		m.Extra = append(m.Extra, rr)
	}
	hasOpt := false
	if r.Chance(2, 5) { // the client already uses EDNS (what browsers do)
		hasOpt = true
		o := new(dns.OPT)
		o.Hdr.Name = "."
		o.Hdr.Rrtype = dns.TypeOPT
		o.SetUDPSize(uint16(pick(r, 512, 1232, 4096, 65535)))
		if r.Chance(1, 3) {
			o.SetDo()
		}
		if r.Chance(1, 2) {
			pad := make([]byte, pick(r, 0, 1, 31, 48, 100, 300))
			if r.Bool() {
				copy(pad, r.Bytes(len(pad)))
			}
			o.Option = append(o.Option, &dns.EDNS0_PADDING{Padding: pad})
		}
		if r.Chance(1, 5) { // options whose data miekg's Unpack keeps as a slice of the input buffer
			switch r.Intn(5) {
			case 0:
				o.Option = append(o.Option, &dns.EDNS0_DAU{Code: dns.EDNS0DAU, AlgCode: r.Bytes(r.Range(1, 6))})
			case 1:
				o.Option = append(o.Option, &dns.EDNS0_DHU{Code: dns.EDNS0DHU, AlgCode: r.Bytes(r.Range(1, 4))})
			case 2:
				o.Option = append(o.Option, &dns.EDNS0_N3U{Code: dns.EDNS0N3U, AlgCode: r.Bytes(r.Range(1, 3))})
			case 3:
				o.Option = append(o.Option, &dns.EDNS0_LOCAL{Code: uint16(pick(r, 65001, 65100, 65534)), Data: r.Bytes(r.Range(0, 20))})
			case 4:
				o.Option = append(o.Option, &dns.EDNS0_LOCAL{Code: uint16(pick(r, 20, 100, 4242)), Data: r.Bytes(r.Range(1, 12))}) // unknown code
			}
		}
		if r.Chance(1, 4) {
			o.Option = append(o.Option, &dns.EDNS0_COOKIE{Code: dns.EDNS0COOKIE, Cookie: fmt.Sprintf("%016x", r.U64())})
		}
		if r.Chance(1, 4) { // the client's own client-subnet
			if r.Bool() {
				o.Option = append(o.Option, &dns.EDNS0_SUBNET{Code: dns.EDNS0SUBNET, Family: 1, SourceNetmask: uint8(pick(r, 0, 24, 32)), Address: net.IP(r.Bytes(4))})
			} else {
				o.Option = append(o.Option, &dns.EDNS0_SUBNET{Code: dns.EDNS0SUBNET, Family: 2, SourceNetmask: uint8(pick(r, 0, 56, 128)), Address: net.IP(r.Bytes(16))})
			}
		}
		m.Extra = append(m.Extra, o)
		if r.Chance(1, 10) {
			rr, _ := dns.NewRR(genName(r) + " 30 IN A 198.51.100.7")
			m.Extra = append(m.Extra, rr)
		}
	}
	return m, hasOpt
}

func genWire(r *vh.Rand) []byte {
	m, _ := genMsg(r)
	w, err := m.Pack()
	if err != nil {
		return r.Bytes(12)
	}
	switch r.Intn(20) {
	case 0:
		return w[:r.Intn(len(w)+1)] // truncated anywhere
	case 1:
		return w[:12] // header only, counts lie
	case 2:
		i := r.Intn(len(w))
		w[i] ^= byte(1 << uint(r.Intn(8))) // bit flip
	case 3:
		return r.Bytes(r.Range(0, 40)) // junk
	case 4:
		return append(w, r.Bytes(r.Range(1, 20))...) // trailing bytes
	case 5:
		return nil
	}
	return w
}

func gen(r *vh.Rand) string {
	if r.Chance(1, 8) {
		return genRsp(r)
	}
	if r.Chance(1, 6) {
		return genFx(r)
	}
	if r.Chance(2, 5) { // a batch: 2..5 requests converted before any of the messages is packed
		var subs []string
		for i, n := 0, r.Range(2, 5); i < n; i++ {
			subs = append(subs, genDoh(r))
		}
		return "bat " + strings.Join(subs, ";")
	}
	return genDoh(r)
}

func genDoh(r *vh.Rand) string {
	method := "GET"
	switch r.Intn(20) {
	case 0:
		method = r.Pick("PUT", "HEAD", "get", "post", "-", "DELETE", "OPTIONS")
	case 1, 2, 3, 4, 5, 6, 7, 8, 9:
		method = "POST"
	}
	w := genWire(r)
	dnsv := "none"
	body := []byte(nil)
	wf := "="
	if method == "POST" || (method != "GET" && r.Bool()) {
		body = w
		switch r.Intn(10) {
		case 0: // pad with junk up to / beyond the limit
			n := pick(r, 8190, 8191, 8192, 8193, 8194, 9000, 16384)
			if n > len(body) {
				body = append(append([]byte{}, body...), r.Bytes(n-len(body))...)
			}
		case 1: // a really oversized message: big EDNS padding / many additional records
			m, _ := genMsg(r)
			if r.Bool() {
				o := m.IsEdns0()
				if o == nil {
					m.SetEdns0(4096, false)
					o = m.IsEdns0()
				}
				o.Option = append(o.Option, &dns.EDNS0_PADDING{Padding: make([]byte, pick(r, 8000, 8100, 8150, 8200, 9000))})
			} else {
				for i, n := 0, r.Range(250, 330); i < n; i++ {
					rr, _ := dns.NewRR(fmt.Sprintf("h%03d.example. 30 IN A 203.0.113.%d", i, i%256))
					m.Extra = append(m.Extra, rr)
				}
			}
			if b, err := m.Pack(); err == nil {
				body = b
			}
		}
		if r.Chance(1, 15) {
			dnsv = hexs(base64.RawURLEncoding.EncodeToString(w)) // a dns parameter next to a POST body is ignored
		}
	}
	if method == "GET" || (method != "POST" && dnsv == "none" && r.Bool()) {
		s := base64.RawURLEncoding.EncodeToString(w)
		vals := []string{s}
		switch r.Intn(16) {
		case 0:
			vals = nil
		case 1:
			vals = append(vals, r.Pick(s, "", "AAAA"))
		case 2:
			vals[0] = s + r.Pick("=", "==", "A=")
		case 3:
			vals[0] = base64.StdEncoding.EncodeToString(w)
		case 4:
			if len(s) > 0 {
				i := r.Intn(len(s))
				vals[0] = s[:i] + r.Pick("\n", "\r\n", " ", "!", "%", "+", "/") + s[i:]
			}
		case 5:
			if len(s)%4 != 0 && len(s) > 0 { // non-zero trailing bits
				const alpha = "ABCDEFGHIJKLMNOPQRSTUVWXYZabcdefghijklmnopqrstuvwxyz0123456789-_"
				i := strings.IndexByte(alpha, s[len(s)-1])
				vals[0] = s[:len(s)-1] + string(alpha[i|1])
			}
		case 6:
			vals[0] = s + "A"
		}
		if vals == nil {
			dnsv = "none"
		} else {
			var hs []string
			for _, v := range vals {
				hs = append(hs, hexs(v))
			}
			dnsv = strings.Join(hs, ",")
		}
		if method == "GET" {
			if len(vals) == 1 { // label the oracle with what the single value really decodes to (non-canonical encodings)
				if d, err := base64.RawURLEncoding.DecodeString(vals[0]); err == nil {
					w = d
				}
			}
			wf = vh.Hex(w)
			if r.Chance(1, 12) {
				body = r.Bytes(r.Range(1, 30)) // a body on a GET is ignored
			}
		}
	}
	var orc string
	if wf == "=" && method == "POST" && len(body) > 8192 {
		w = body[:8192] // what the code unpacks of an oversized body
		wf = vh.Hex(w)
	}
	if wf == "=" {
		orc = oracle(body)
	} else {
		orc = oracle(w)
	}
	script := "-"
	if len(body) > 0 && r.Chance(3, 5) { // how req.Body.Read hands the body over
		var xs []string
		for i, n := 0, r.Range(0, 4); i < n; i++ {
			xs = append(xs, strconv.Itoa(pick(r, 1, 2, 3, 7, 11, 12, 13, 0, len(body)-1, len(body)/2, r.Intn(len(body)+1), 512, 4096, 8191)))
		}
		script = strings.Join(xs, ".")
		if r.Bool() {
			script += "e"
		}
		if script == "" {
			script = "-"
		}
	}
	return fmt.Sprintf("doh %s %s %s %s %s %s %s %s", method, dnsv, vh.Hex(body), genIP(r), func() string {
		if r.Bool() {
			return "nil"
		}
		return genIP(r)
	}(), wf, orc, script)
}

func main() { vh.Main(gen, exec) }
