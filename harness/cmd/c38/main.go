// C38: HTTP/2 responses carry exactly the handler's response.
//
// One case = one request on stream 1 of a fresh, REAL bfe_http2 server connection (Server.ServeConn on a
// net.Pipe, real serve loop / framer / hpack) whose handler executes the scripted actions of the op line.
// The client side decodes every frame the server sends for stream 1.
//
//	op     = <G|H>|<act>;<act>;...        G = GET, H = HEAD
//	act    = a:<hexkey>:<hexval>          w.Header()[key] = append(w.Header()[key], val)   (raw key, no canonicalisation)
//	         m:<hexkey>:<hexval>          w.Header()[key][0] = val, in place (no effect if the key is absent): the snapshot taken
//	                                      at WriteHeader time must not alias the handler's slices
//	         s:<code>                     w.WriteHeader(code)
//	         A:<hexkey>:<hexbyte>:<n>     the same with a value of n copies of the byte (large header / trailer blocks)
//	         w:<hexbyte>:<n>              w.Write(n copies of the byte)
//	         f                            w.Flush()
//	result = <frame>/<frame>/...|<write results>
//	frame  = H<+|->[<wire>]:<hexname>=<hexvalue>,...   a header block (+ = END_STREAM on its HEADERS frame);
//	         <wire> = the frames that carried it, joined by ".": h|c (HEADERS|CONTINUATION), S|- END_STREAM flag,
//	         E|- END_HEADERS flag, fragment length — e.g. hS-16384.c-E20; field values longer than 64 bytes are
//	         printed run-length encoded as *<rle>
//	         D<+|->:<hexbyte>*<n>.<hexbyte>*<n>   DATA, run-length encoded payload
//	         R:<code>  RST_STREAM      G:<code>  GOAWAY     E:<text>  client-side decode error
//	               after every Write the harness overwrites the buffer it passed (the server must not keep it);
//	               a Flush that returns an error adds "fe"
//	write results: per w action  <n> | b (ErrBodyNotAllowed) | c (more than declared Content-Length) | e (other error);
//	               for HEAD requests a Write that reaches the bufio.Writer is printed "w" whatever it returned: the real
//	               result (byte count, io.ErrShortWrite or errStreamClosed) depends on goroutine timing in writeHeaders
//
// The automatically added date is printed as "@"; a sniffed content-type (http.DetectContentType, an
// external function) is printed as "@" (scripts only ever set the values x/y, t/h and "").
package main

import (
	"bytes"
	"fmt"
	"net"
	"strconv"
	"strings"
	"time"

	"bfeverif/harness/internal/vh"
	http "github.com/bfenetworks/bfe/bfe_http"
	"github.com/bfenetworks/bfe/bfe_http2"
	"github.com/bfenetworks/bfe/bfe_http2/hpack"
)

type action struct {
	kind byte
	k, v string
	n    int
	b    byte
}

func parseOp(op string) (head bool, acts []action, ok bool) {
	parts := strings.SplitN(op, "|", 2)
	if len(parts) != 2 || (parts[0] != "G" && parts[0] != "H") {
		return false, nil, false
	}
	head = parts[0] == "H"
	if parts[1] == "" {
		return head, nil, true
	}
	for _, a := range strings.Split(parts[1], ";") {
		f := strings.Split(a, ":")
		switch {
		case f[0] == "a" && len(f) == 3:
			k, ok1 := vh.UnHex(f[1])
			v, ok2 := vh.UnHex(f[2])
			if !ok1 || !ok2 {
				return false, nil, false
			}
			acts = append(acts, action{kind: 'a', k: string(k), v: string(v)})
		case f[0] == "m" && len(f) == 3:
			k, ok1 := vh.UnHex(f[1])
			v, ok2 := vh.UnHex(f[2])
			if !ok1 || !ok2 {
				return false, nil, false
			}
			acts = append(acts, action{kind: 'm', k: string(k), v: string(v)})
		case f[0] == "A" && len(f) == 4:
			k, ok1 := vh.UnHex(f[1])
			b, ok2 := vh.UnHex(f[2])
			n, err := strconv.Atoi(f[3])
			if !ok1 || !ok2 || len(b) != 1 || err != nil || n < 0 || n > 1<<17 {
				return false, nil, false
			}
			acts = append(acts, action{kind: 'a', k: string(k), v: strings.Repeat(string(b), n)})
		case f[0] == "s" && len(f) == 2:
			n, err := strconv.Atoi(f[1])
			if err != nil {
				return false, nil, false
			}
			acts = append(acts, action{kind: 's', n: n})
		case f[0] == "w" && len(f) == 3:
			b, ok1 := vh.UnHex(f[1])
			n, err := strconv.Atoi(f[2])
			if !ok1 || len(b) != 1 || err != nil || n < 0 || n > 1<<20 {
				return false, nil, false
			}
			acts = append(acts, action{kind: 'w', b: b[0], n: n})
		case f[0] == "f" && len(f) == 1:
			acts = append(acts, action{kind: 'f'})
		default:
			return false, nil, false
		}
	}
	return head, acts, true
}

func rle(p []byte) string {
	if len(p) == 0 {
		return "-"
	}
	var sb strings.Builder
	i := 0
	for i < len(p) {
		j := i
		for j < len(p) && p[j] == p[i] {
			j++
		}
		if i > 0 {
			sb.WriteByte('.')
		}
		fmt.Fprintf(&sb, "%02x*%d", p[i], j-i)
		i = j
	}
	return sb.String()
}

type ev struct {
	s       string
	pingAck bool
	fatal   bool
}

func run(head bool, acts []action) string {
	c1, c2 := net.Pipe()
	defer c1.Close()
	var wres []string
	var rwSeen http.ResponseWriter
	handlerRet := make(chan struct{})
	h := func(w http.ResponseWriter, r *http.Request) {
		rwSeen = w
		defer close(handlerRet)
		for _, a := range acts {
			switch a.kind {
			case 'a':
				w.Header()[a.k] = append(w.Header()[a.k], a.v)
			case 'm':
				if vv := w.Header()[a.k]; len(vv) > 0 {
					vv[0] = a.v
				}
			case 's':
				w.WriteHeader(a.n)
			case 'w':
				buf := bytes.Repeat([]byte{a.b}, a.n)
				n, err := w.Write(buf)
				for i := range buf {
					buf[i] ^= 0x5a // the caller may reuse its buffer as soon as Write returns
				}
				switch {
				case err == nil:
					wres = append(wres, strconv.Itoa(n))
				case err == http.ErrBodyNotAllowed:
					wres = append(wres, "b")
				case strings.Contains(err.Error(), "declared Content-Length"):
					wres = append(wres, "c")
				default:
					wres = append(wres, "e")
				}
			case 'f':
				if err := w.(http.Flusher).Flush(); err != nil {
					wres = append(wres, "fe")
				}
			}
		}
	}
	bfe_http2.VerifC38Capture()
	srv := &bfe_http2.Server{}
	hs := &http.Server{ReadTimeout: time.Hour, WriteTimeout: time.Hour, GracefulShutdownTimeout: time.Second}
	go srv.ServeConn(c2, &bfe_http2.ServeConnOpts{BaseConfig: hs, Handler: http.HandlerFunc(h)})

	evc := make(chan ev, 4096)
	// reader
	go func() {
		fr := bfe_http2.NewFramer(nil, c1)
		fr.SetMaxReadFrameSize(1 << 20)
		var fields []hpack.HeaderField
		dec := hpack.NewDecoder(4096, func(hf hpack.HeaderField) error { fields = append(fields, hf); return nil })
		var wire []string
		var block []byte
		blockES := false
		finish := func() {
			fields = nil
			if _, err := dec.Write(block); err != nil || dec.Close() != nil {
				evc <- ev{s: "E:hpack", fatal: true}
			}
			var fs []string
			for _, hf := range fields {
				v := hf.Value
				if hf.Name == "date" {
					if _, err := time.Parse(http.TimeFormat, v); err == nil {
						v = "@"
					}
				}
				if hf.Name == "content-type" && v != "x/y" && v != "t/h" && v != "" {
					v = "@" // sniffed by http.DetectContentType (the scripts only use x/y, t/h and the empty value)
				}
				hv := vh.Hex([]byte(v))
				if len(v) > 64 {
					hv = "*" + rle([]byte(v))
				}
				fs = append(fs, vh.Hex([]byte(hf.Name))+"="+hv)
			}
			e := "-"
			if blockES {
				e = "+"
			}
			evc <- ev{s: "H" + e + "[" + strings.Join(wire, ".") + "]:" + strings.Join(fs, ",")}
			wire, block = nil, nil
		}
		flag := func(b bool, c string) string {
			if b {
				return c
			}
			return "-"
		}
		for {
			f, err := fr.ReadFrame()
			if err != nil {
				if se, ok := err.(bfe_http2.StreamError); ok {
					evc <- ev{s: "E:stream-" + strconv.Itoa(int(se.Code))}
					continue
				}
				evc <- ev{s: "E:read", fatal: true}
				return
			}
			switch f := f.(type) {
			case *bfe_http2.HeadersFrame:
				if f.StreamID != 1 {
					continue
				}
				frag := f.HeaderBlockFragment()
				wire = append(wire, "h"+flag(f.StreamEnded(), "S")+flag(f.HeadersEnded(), "E")+strconv.Itoa(len(frag)))
				block = append(block, frag...)
				blockES = f.StreamEnded()
				if f.HeadersEnded() {
					finish()
				}
			case *bfe_http2.ContinuationFrame:
				if f.StreamID != 1 {
					continue
				}
				frag := f.HeaderBlockFragment()
				wire = append(wire, "c"+flag(f.Header().Flags.Has(bfe_http2.FlagDataEndStream), "S")+flag(f.HeadersEnded(), "E")+strconv.Itoa(len(frag)))
				block = append(block, frag...)
				if f.HeadersEnded() {
					finish()
				}
			case *bfe_http2.DataFrame:
				if f.StreamID != 1 {
					continue
				}
				e := "-"
				if f.StreamEnded() {
					e = "+"
				}
				evc <- ev{s: "D" + e + ":" + rle(f.Data())}
			case *bfe_http2.RSTStreamFrame:
				evc <- ev{s: "R:" + strconv.Itoa(int(f.ErrCode))}
			case *bfe_http2.GoAwayFrame:
				evc <- ev{s: "G:" + strconv.Itoa(int(f.ErrCode))}
			case *bfe_http2.PingFrame:
				if f.IsAck() {
					evc <- ev{pingAck: true}
				}
			}
		}
	}()

	// writer side of the client
	cw := bfe_http2.NewFramer(c1, nil)
	c1.SetWriteDeadline(time.Now().Add(120 * time.Second))
	if _, err := c1.Write([]byte(bfe_http2.ClientPreface)); err != nil {
		return "err:preface"
	}
	if err := cw.WriteSettings(); err != nil {
		return "err:settings"
	}
	var hb bytes.Buffer
	enc := hpack.NewEncoder(&hb)
	m := "GET"
	if head {
		m = "HEAD"
	}
	enc.WriteField(hpack.HeaderField{Name: ":method", Value: m})
	enc.WriteField(hpack.HeaderField{Name: ":path", Value: "/"})
	enc.WriteField(hpack.HeaderField{Name: ":scheme", Value: "http"})
	if err := cw.WriteHeaders(bfe_http2.HeadersFrameParam{StreamID: 1, BlockFragment: hb.Bytes(), EndStream: true, EndHeaders: true}); err != nil {
		return "err:headers"
	}
	select {
	case <-handlerRet:
	case <-time.After(120 * time.Second):
		return "HANG:handler"
	}
	deadline := time.Now().Add(120 * time.Second)
	for !bfe_http2.VerifC38HandlerFinished(rwSeen) {
		if time.Now().After(deadline) {
			return "HANG:handlerDone"
		}
		time.Sleep(20 * time.Microsecond)
	}
	// Quiescence without timing: the handler goroutine is gone, so the only frames still on their way are
	// those sitting in wantWriteFrameCh or in the scheduler.  PING round trips are processed by the serve
	// loop strictly after the frames it picked up before; see below.
	var frames []string
	timeout := time.After(120 * time.Second)
	ping := func() bool {
		if err := cw.WritePing(false, [8]byte{1, 2, 3, 4, 5, 6, 7, 8}); err != nil {
			frames = append(frames, "E:ping")
			return false
		}
		for {
			select {
			case e := <-evc:
				if e.pingAck {
					return true
				}
				frames = append(frames, e.s)
				if e.fatal {
					return false
				}
			case <-timeout:
				frames = append(frames, "HANG")
				return false
			}
		}
	}
	for i := 0; i < 1000; i++ {
		if !ping() {
			break
		}
		if bfe_http2.VerifC38PendingWrites() == 0 {
			// every handler frame is now in the scheduler (or written).  The server flushes only when the
			// scheduler has nothing left to send, so receiving the next ACK means all of them were written
			// (before or after that ACK, in the same flush); the ACK after that one is behind them all.
			if ping() {
				ping()
			}
			break
		}
	}
	fs := strings.Join(frames, "/")
	if fs == "" {
		fs = "-"
	}
	if head {
		// In the real code the outcome of a HEAD handler's Write depends on goroutine timing: the HEADERS frame carries
		// END_STREAM, so wroteFrame answers the waiting writeHeaders call AND closes the stream (st.cw); writeHeaders'
		// select may pick either (nil or errStreamClosed), and bufio makes the error sticky.  No frame depends on it.
		// For HEAD only the class "reached the bufio.Writer" (w) is compared; b / c / fe stay exact.
		for i, r := range wres {
			if r == "e" || (r != "b" && r != "c" && r != "fe") {
				wres[i] = "w"
			}
		}
	}
	ws := strings.Join(wres, ",")
	if ws == "" {
		ws = "-"
	}
	return fs + "|" + ws
}

func exec(op string) string {
	head, acts, ok := parseOp(op)
	if !ok {
		return "bad-op"
	}
	return run(head, acts)
}

// ---------------------------------------------------------------- generator

var normalKeys = []string{"X-A", "x-b", "X-Custom", "Server", "x-a", "Cache-Control", "Set-Cookie", "X-T1", "X-T2", "X-T3"}
var connKeys = []string{"Connection", "connection", "CONNECTION", "Keep-Alive", "keep-alive", "Proxy-Connection",
	"proxy-connection", "Transfer-Encoding", "transfer-encoding", "Upgrade", "upgrade", "UPGRADE", "Proxy-Authenticate",
	"proxy-authorization", "Proxy-Authorization", "Keep-alive", "Transfer-encoding"}
var badKeys = []string{"X Y", "x:y", "", "X\x00", "x(y)", "\x7f"}
var vals = []string{"v", "close", "trailers", "chunked", "", "a b", "a\tb", "x,y", "1"}
var badVals = []string{"a\nb", "a\x7f", "\x00", "a\rb"}
var clVals = []string{"5", "0", "+3", "-1", "abc", "", "99999999999999999999", "007", "10", "4096", "9223372036854775807", "9223372036854775808", " 5", "-0", "+"}
var trailerDecl = []string{"X-T1", "X-T1, X-T2", "x-t2,X-T3", "Connection", "Content-Length,X-T2", " X-T1 ,, x-t3 ", "Trailer", "Keep-Alive, X-T1",
	"Transfer-Encoding", "", ",", "X-Never", "upgrade"}
var prefixKeys = []string{"Trailer:X-T3", "Trailer:x-t4", "Trailer:Connection", "Trailer:X-T1", "Trailer:", "Trailer:Content-Length", "Trailer:X Y"}
var statuses = []int{200, 200, 200, 204, 304, 404, 500, 100, 101, 199, 201, 999, 301, 205, 206, 302, 400, 503, 599, 600, 103}

func hx(s string) string { return vh.Hex([]byte(s)) }

func genHeader(r *vh.Rand, late bool) string {
	var k, v string
	switch x := r.Intn(20); {
	case x < 6:
		k, v = r.Pick(normalKeys...), r.Pick(vals...)
	case x < 11:
		k, v = r.Pick(connKeys...), r.Pick(vals...)
	case x < 12:
		k, v = r.Pick(badKeys...), r.Pick(vals...)
	case x < 13:
		k, v = r.Pick(normalKeys...), r.Pick(badVals...)
	case x < 14:
		k, v = "Content-Length", r.Pick(clVals...)
	case x < 15:
		k, v = "Content-Type", r.Pick("x/y", "t/h", "")
	case x < 16:
		k, v = "Date", r.Pick("d1", "")
	case x < 18:
		k, v = "Trailer", r.Pick(trailerDecl...)
	default:
		k, v = r.Pick(prefixKeys...), r.Pick(vals...)
	}
	if late && r.Chance(1, 2) {
		k, v = r.Pick("X-T1", "X-T2", "X-T3", "x-t3", "X-T4", "Connection", "Keep-Alive", "Trailer:X-T3", "Upgrade"), r.Pick(append(vals, badVals...)...)
	}
	return "a:" + hx(k) + ":" + hx(v)
}

func genWrite(r *vh.Rand) string {
	var n int
	switch r.Intn(12) {
	case 0:
		n = 0
	case 1:
		n = r.Range(4090, 4100)
	case 2:
		n = r.Range(4000, 4200)
	case 3:
		n = r.Range(8190, 8200)
	case 4:
		n = r.Range(4097, 9000)
	default:
		n = r.Range(1, 40)
	}
	b := byte(r.Pick("a", "b", "<", "\x00", "\xff", "z")[0])
	return fmt.Sprintf("w:%02x:%d", b, n)
}

// genBig: a response whose header block (or trailer block) is around one or two 16384-byte frames.
func genBig(r *vh.Rand) string {
	m := "G"
	if r.Chance(1, 4) {
		m = "H"
	}
	target := r.Pick("16384", "16384", "32768", "20000", "40000", "8000")
	t, _ := strconv.Atoi(target)
	t += r.Range(-140, 60) // the fixed fields and the per-field overhead put the block on either side of the boundary
	var acts []string
	bigs := func(keys []string) {
		left := t
		for i, k := range keys {
			n := left / (len(keys) - i)
			if i < len(keys)-1 {
				n = r.Range(n/2, n)
			}
			if n > 16000 && r.Chance(1, 2) {
				n = 16000
			}
			left -= n + 4
			acts = append(acts, fmt.Sprintf("A:%s:%s:%d", hx(k), r.Pick("fe", "ff", "e9", "80"), n)) // bytes that Huffman coding does not shrink
		}
	}
	keysH := [][]string{{"X-A"}, {"X-A", "X-Custom"}, {"X-A", "X-Custom", "Server", "x-b", "X-T3"}}[r.Intn(3)]
	trailers := r.Chance(1, 3) && m == "G"
	if trailers {
		acts = append(acts, "a:"+hx("Trailer")+":"+hx("X-T1, X-T2"))
		if r.Chance(1, 3) {
			bigs(keysH) // big header block as well
		}
		if r.Chance(1, 2) {
			acts = append(acts, genWrite(r))
		}
		acts = append(acts, "f")
		keysH = [][]string{{"X-T1"}, {"X-T1", "X-T2"}}[r.Intn(2)]
		bigs(keysH)
		return m + "|" + strings.Join(acts, ";")
	}
	bigs(keysH)
	switch r.Intn(6) {
	case 0:
		acts = append(acts, "s:204")
	case 1:
		acts = append(acts, "s:304")
	case 2:
		acts = append(acts, genWrite(r))
	case 3:
		acts = append(acts, "f", genWrite(r))
	}
	return m + "|" + strings.Join(acts, ";")
}

// genTrailers: trailers announced in several Trailer header lines (and in one comma list), values set after the body,
// some never set, some set but never announced, some modified in place after WriteHeader.
func genTrailers(r *vh.Rand) string {
	names := []string{"X-T1", "X-T2", "X-T3", "X-T4", "x-t5", "X-Never"}
	var acts []string
	nl := r.Range(1, 3)
	var announced []string
	for i := 0; i < nl; i++ {
		var line []string
		for j := 0; j <= r.Intn(2); j++ {
			n := names[r.Intn(len(names))]
			line = append(line, n)
			announced = append(announced, n)
		}
		acts = append(acts, "a:"+hx("Trailer")+":"+hx(strings.Join(line, r.Pick(",", ", ", " , "))))
	}
	if r.Chance(1, 3) {
		acts = append(acts, "a:"+hx("X-A")+":"+hx("v"), "m:"+hx("X-A")+":"+hx("w"))
	}
	if r.Chance(1, 2) {
		acts = append(acts, fmt.Sprintf("s:%d", statuses[r.Intn(len(statuses))]))
	}
	if r.Chance(1, 3) {
		acts = append(acts, "m:"+hx("Trailer")+":"+hx("X-T4")) // after the snapshot: must not change what was announced
	}
	for i := r.Intn(3); i > 0; i-- {
		acts = append(acts, genWrite(r))
	}
	if r.Chance(2, 3) {
		acts = append(acts, "f")
	}
	for _, n := range announced {
		if r.Chance(3, 4) {
			acts = append(acts, "a:"+hx(n)+":"+hx(r.Pick(append(vals, badVals...)...)))
		}
	}
	if r.Chance(1, 3) {
		acts = append(acts, "a:"+hx(names[r.Intn(len(names))])+":"+hx("late"), "m:"+hx(names[r.Intn(len(names))])+":"+hx("changed"))
	}
	if r.Chance(1, 4) {
		acts = append(acts, "a:"+hx("Trailer:"+names[r.Intn(len(names))])+":"+hx("p"))
	}
	m := "G"
	if r.Chance(1, 8) {
		m = "H"
	}
	return m + "|" + strings.Join(acts, ";")
}

func gen(r *vh.Rand) string {
	if r.Chance(1, 8) {
		return genBig(r)
	}
	if r.Chance(1, 6) {
		return genTrailers(r)
	}
	m := "G"
	if r.Chance(1, 5) {
		m = "H"
	}
	var acts []string
	nh := r.Intn(5)
	if r.Chance(1, 8) {
		nh = r.Range(5, 9)
	}
	for i := 0; i < nh; i++ {
		acts = append(acts, genHeader(r, false))
	}
	if r.Chance(1, 2) {
		acts = append(acts, fmt.Sprintf("s:%d", statuses[r.Intn(len(statuses))]))
	}
	nb := r.Intn(5)
	for i := 0; i < nb; i++ {
		switch x := r.Intn(10); {
		case x < 5:
			acts = append(acts, genWrite(r))
		case x < 7:
			acts = append(acts, "f")
		case x < 8:
			acts = append(acts, genHeader(r, true))
		case x < 9:
			if k := r.Pick(append(normalKeys, "Content-Type", "Trailer", "Date", "connection")...); k == "Content-Type" {
				acts = append(acts, "m:"+hx(k)+":"+hx(r.Pick("x/y", "t/h")))
			} else {
				acts = append(acts, "m:"+hx(k)+":"+hx(r.Pick(vals...)))
			}
		default:
			acts = append(acts, fmt.Sprintf("s:%d", statuses[r.Intn(len(statuses))]))
		}
	}
	return m + "|" + strings.Join(acts, ";")
}

// pre: sweep the block length across the 16384 / 32768 frame boundaries byte by byte, for a header block that
// ends the stream (no body, HEAD, 204) and for a trailer block.
func pre(emit func(op string), thorough bool) {
	xa, t1 := hx("X-A"), hx("X-T1")
	for _, base := range []int{16384, 32768} {
		for n := base - 75; n <= base+5; n++ {
			emit(fmt.Sprintf("G|A:%s:fe:%d", xa, n))
			emit(fmt.Sprintf("G|a:%s:%s;w:61:3;f;A:%s:fe:%d", hx("Trailer"), t1, t1, n))
			if n%4 == 0 || thorough {
				emit(fmt.Sprintf("H|A:%s:fe:%d", xa, n))
				emit(fmt.Sprintf("G|A:%s:fe:%d;s:204", xa, n))
				emit(fmt.Sprintf("G|A:%s:fe:%d;w:61:5", xa, n))
			}
		}
	}
}

func main() {
	vh.Pre = pre
	vh.Main(gen, func(op string) string { return vh.SafeTimeout(600*time.Second, func() string { return exec(op) }) })
}
