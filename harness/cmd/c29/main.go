// C29: client address cannot be spoofed by untrusted peers.
//
//	ca t=<ranges>;p=<peer ip16>;pt=<peer text>;pp=<port>;h=<host>;hd=<header map>;lt=<local text>;ipd=…;ptd=…
//
//	rl <step>/<step>/…   a trust-table RELOAD HISTORY through the real module: `L.<version hex>.<ranges|_>.<kind>` writes the
//	                     data file (kind ok | badjson | nover | badrange | badip) and runs Init (first step) or the reload
//	                     handler; `C.<connection as in ca, t=_>` is a connection judged against the table in force;
//	                     `W.<connection>;sk=<socket ip16>:<port>;px=<none|v1|unknown|bare>;seg=<segmentation>` is the same from
//	                     WIRE BYTES through the real connection path: BfeListener.Accept (PROXY protocol wrapping when px != none),
//	                     newConn, the HandleAccept callbacks the module registered, conn.readRequest, setClientAddr; the header
//	                     map is sent as field lines, px=v1 prepends "PROXY TCP4/TCP6 <p> <local> <pp> 8080", delivered in segments
//
// After mod_header the request copy goes through the REAL httpProtoSet + hopByHopHeaderRemove (`up=` = headers sent upstream).
// runs the REAL mod_trust_clientip (ipItemsMake + IPTable + acceptHandler) on a session of that peer, the REAL
// bfe_server.setClientAddr and the REAL mod_header.setDefaultHeader, and prints req.ClientAddr and the header map.
// ipd/ptd are the net.ParseIP / strconv.Atoi facts the Lean model consumes; exec re-checks them.
package main

import (
	"bytes"
	"fmt"
	"io/ioutil"
	"net"
	"os"
	"path/filepath"
	"strconv"
	"strings"
	"time"

	"bfeverif/harness/internal/c25lib"
	"bfeverif/harness/internal/vh"
	"github.com/bfenetworks/bfe/bfe_basic"
	"github.com/bfenetworks/bfe/bfe_http"
	"github.com/bfenetworks/bfe/bfe_modules/mod_header"
	"github.com/bfenetworks/bfe/bfe_modules/mod_trust_clientip"
	"github.com/bfenetworks/bfe/bfe_server"
)

type fakeConn struct{ local, remote *net.TCPAddr }

func (c *fakeConn) Read(b []byte) (int, error)         { return 0, fmt.Errorf("closed") }
func (c *fakeConn) Write(b []byte) (int, error)        { return len(b), nil }
func (c *fakeConn) Close() error                       { return nil }
func (c *fakeConn) LocalAddr() net.Addr                { return c.local }
func (c *fakeConn) RemoteAddr() net.Addr               { return c.remote }
func (c *fakeConn) SetDeadline(t time.Time) error      { return nil }
func (c *fakeConn) SetReadDeadline(t time.Time) error  { return nil }
func (c *fakeConn) SetWriteDeadline(t time.Time) error { return nil }

type input struct {
	ranges   [][2]net.IP
	peer     net.IP
	peerText string
	port     int
	host     string
	hdr      map[string][]string
	local    string
	ipd      map[string]*string
	ptd      map[string]*int
}

func hx(s string) string { return vh.Hex([]byte(s)) }

func firstSplit(h bfe_http.Header, k string) string {
	if s := h.Get(k); s != "" {
		return strings.TrimSpace(strings.SplitN(s, ",", 2)[0])
	}
	return ""
}

// facts computes the dictionaries for the strings setClientAddr may look at.
func (in *input) facts() {
	h := bfe_http.Header(in.hdr)
	in.ipd, in.ptd = map[string]*string{}, map[string]*int{}
	for _, s := range []string{h.Get("X-Real-Ip"), firstSplit(h, "X-Forwarded-For")} {
		if s == "" {
			continue
		}
		if ip := net.ParseIP(s); ip != nil {
			t := ip.String()
			in.ipd[s] = &t
		} else {
			in.ipd[s] = nil
		}
	}
	for _, s := range []string{h.Get("X-Real-Port"), firstSplit(h, "X-Forwarded-Port")} {
		if n, err := strconv.Atoi(s); err == nil {
			in.ptd[s] = &n
		} else {
			in.ptd[s] = nil
		}
	}
}

func (in *input) encode() string {
	var rs []string
	for _, r := range in.ranges {
		rs = append(rs, vh.Hex(r[0].To16())+"-"+vh.Hex(r[1].To16()))
	}
	t := "_"
	if len(rs) > 0 {
		t = strings.Join(rs, ",")
	}
	var ipd, ptd []string
	for _, k := range sortedKeys(in.ipd) {
		if v := in.ipd[k]; v != nil {
			ipd = append(ipd, hx(k)+":"+hx(*v))
		} else {
			ipd = append(ipd, hx(k)+":nil")
		}
	}
	for _, k := range sortedKeysI(in.ptd) {
		if v := in.ptd[k]; v != nil {
			ptd = append(ptd, hx(k)+":"+strconv.Itoa(*v))
		} else {
			ptd = append(ptd, hx(k)+":nil")
		}
	}
	j := func(xs []string) string {
		if len(xs) == 0 {
			return "_"
		}
		return strings.Join(xs, ",")
	}
	return fmt.Sprintf("ca t=%s;p=%s;pt=%s;pp=%d;h=%s;hd=%s;lt=%s;ipd=%s;ptd=%s", t, vh.Hex(in.peer.To16()), hx(in.peerText),
		in.port, hx(in.host), c25lib.HeaderString(in.hdr), hx(in.local), j(ipd), j(ptd))
}

func sortedKeys(m map[string]*string) []string {
	var ks []string
	for k := range m {
		ks = append(ks, k)
	}
	sortStrings(ks)
	return ks
}
func sortedKeysI(m map[string]*int) []string {
	var ks []string
	for k := range m {
		ks = append(ks, k)
	}
	sortStrings(ks)
	return ks
}
func sortStrings(a []string) {
	for i := 1; i < len(a); i++ {
		for j := i; j > 0 && a[j] < a[j-1]; j-- {
			a[j], a[j-1] = a[j-1], a[j]
		}
	}
}

func decode(s string) (*input, bool) {
	m := map[string]string{}
	for _, f := range strings.Split(s, ";") {
		kv := strings.SplitN(f, "=", 2)
		if len(kv) != 2 {
			return nil, false
		}
		m[kv[0]] = kv[1]
	}
	in := &input{}
	un := func(k string) (string, bool) {
		b, ok := vh.UnHex(m[k])
		return string(b), ok
	}
	if m["t"] != "_" {
		for _, r := range strings.Split(m["t"], ",") {
			ab := strings.Split(r, "-")
			if len(ab) != 2 {
				return nil, false
			}
			a, ok1 := vh.UnHex(ab[0])
			b, ok2 := vh.UnHex(ab[1])
			if !ok1 || !ok2 || len(a) != 16 || len(b) != 16 {
				return nil, false
			}
			in.ranges = append(in.ranges, [2]net.IP{net.IP(a), net.IP(b)})
		}
	}
	p, ok := vh.UnHex(m["p"])
	if !ok || len(p) != 16 {
		return nil, false
	}
	in.peer = net.IP(p)
	if in.peerText, ok = un("pt"); !ok {
		return nil, false
	}
	var err error
	if in.port, err = strconv.Atoi(m["pp"]); err != nil || in.port < 0 || in.port > 65535 {
		return nil, false
	}
	if in.host, ok = un("h"); !ok {
		return nil, false
	}
	if in.hdr, ok = c25lib.ParseHeader(m["hd"]); !ok {
		return nil, false
	}
	if in.local, ok = un("lt"); !ok {
		return nil, false
	}
	return in, true
}

// checkInput validates a decoded connection against its own canonical encoding and the std-lib facts.
func checkInput(in *input, payload string) bool {
	in.facts()
	if strings.TrimPrefix(in.encode(), "ca ") != payload || in.peer.String() != in.peerText {
		return false
	}
	lip := net.ParseIP(in.local)
	if lip == nil || lip.String() != in.local {
		return false
	}
	for k := range in.hdr {
		if bfe_http.CanonicalHeaderKey(k) != k {
			return false
		}
	}
	for _, r := range in.ranges {
		if bytes.Compare(r[0], r[1]) > 0 {
			return false
		}
	}
	return true
}

// runConn: one connection from in.peer with in.hdr; accept decides the session's trust flag.
func runConn(in *input, accept func(*bfe_basic.Session) error) string {
	lip := net.ParseIP(in.local)
	conn := &fakeConn{local: &net.TCPAddr{IP: lip, Port: 8080}, remote: &net.TCPAddr{IP: in.peer, Port: in.port}}
	session := bfe_basic.NewSession(conn)
	if err := accept(session); err != nil {
		return "err:conf"
	}
	// the request as the http server hands it to the proxy
	hreq := &bfe_http.Request{Method: "GET", Host: in.host, Header: bfe_http.Header{}, RemoteAddr: conn.RemoteAddr().String(),
		State: &bfe_http.RequestState{}}
	for k, vs := range in.hdr {
		hreq.Header[k] = append([]string{}, vs...)
	}
	req := &bfe_basic.Request{Connection: conn, Session: session, RemoteAddr: session.RemoteAddr, HttpRequest: hreq}
	// ReverseProxy.ServeHTTP: setClientAddr; HandleAfterLocation: mod_header default headers;
	// then outreq = copy, httpProtoSet, hopByHopHeaderRemove
	bfe_server.VerifSetClientAddr(req)
	mod_header.VerifSetDefaultHeader(req)
	outreq := new(bfe_http.Request)
	*outreq = *hreq
	bfe_server.VerifHttpProtoSet(outreq)
	bfe_server.VerifHopByHopHeaderRemove(outreq, hreq)
	ca := "nil"
	if req.ClientAddr != nil {
		ca = hx(req.ClientAddr.IP.String()) + ":" + strconv.Itoa(req.ClientAddr.Port)
	}
	return "ca=" + ca + " hd=" + c25lib.HeaderString(nonEmpty(hreq.Header)) + " up=" + c25lib.HeaderString(nonEmpty(outreq.Header))
}

// nonEmpty drops keys without values (nothing is written for them; CopyHeader drops them too).
func nonEmpty(h bfe_http.Header) map[string][]string {
	out := map[string][]string{}
	for k, vs := range h {
		if len(vs) > 0 {
			out[k] = vs
		}
	}
	return out
}

func execCa(payload string) string {
	in, ok := decode(payload)
	if !ok || !checkInput(in, payload) {
		return "bad-op"
	}
	scopes := mod_trust_clientip.AddrScopeList{}
	for _, r := range in.ranges {
		scopes = append(scopes, mod_trust_clientip.AddrScope{Begin: r[0], End: r[1]})
	}
	conf := mod_trust_clientip.TrustIPConf{Version: "v", Config: mod_trust_clientip.SrcScopeMap{"src": &scopes}}
	return runConn(in, func(s *bfe_basic.Session) error { return mod_trust_clientip.VerifAccept(conf, s) })
}

// dataFile renders the trust-ip data file of one load step.
func dataFile(version string, ranges [][2]net.IP, kind string) string {
	var sc []string
	for i, r := range ranges {
		b, e := r[0].String(), r[1].String()
		if kind == "badrange" && i == 0 {
			b, e = "10.9.9.9", "10.0.0.1"
		}
		if kind == "badip" && i == 0 {
			b = "999.1.1.1"
		}
		sc = append(sc, fmt.Sprintf(`{"begin": %q, "end": %q}`, b, e))
	}
	if (kind == "badrange" || kind == "badip") && len(ranges) == 0 {
		sc = append(sc, map[string]string{"badrange": `{"begin": "10.9.9.9", "end": "10.0.0.1"}`, "badip": `{"begin": "999.1.1.1", "end": "10.0.0.1"}`}[kind])
	}
	body := fmt.Sprintf(`"Config": {"src": [%s]}`, strings.Join(sc, ","))
	switch kind {
	case "badjson":
		return fmt.Sprintf(`{"Version": %q, "Config": {"src": [`, version)
	case "nover":
		return "{" + body + "}"
	}
	return fmt.Sprintf(`{"Version": %q, %s}`, version, body)
}

func execHistory(spec string) string {
	steps := strings.Split(spec, "/")
	if len(steps) == 0 || len(steps) > 16 {
		return "bad-op"
	}
	root, err := ioutil.TempDir("", "verif-c29-")
	if err != nil {
		return "bad-op"
	}
	defer os.RemoveAll(root)
	dir := filepath.Join(root, "mod_trust_clientip")
	os.MkdirAll(dir, 0755)
	data := filepath.Join(dir, "trust_client_ip.data")
	ioutil.WriteFile(filepath.Join(dir, "mod_trust_clientip.conf"), []byte("[basic]\nDataPath = mod_trust_clientip/trust_client_ip.data\n"), 0644)
	var mod *mod_trust_clientip.VerifC29Module
	var out []string
	for _, st := range steps {
		f := strings.Split(st, ".")
		switch {
		case len(f) == 4 && f[0] == "L":
			ver, ok := vh.UnHex(f[1])
			for _, c := range ver {
				if !(c >= 'a' && c <= 'z' || c >= '0' && c <= '9' || c == '.' || c == '-') {
					ok = false
				}
			}
			in, ok2 := decode("t=" + f[2] + ";p=00000000000000000000000000000001;pt=-;pp=0;h=-;hd=_;lt=-")
			if !ok || !ok2 {
				return "bad-op"
			}
			switch f[3] {
			case "ok", "badjson", "nover", "badrange", "badip":
			default:
				return "bad-op"
			}
			for _, r := range in.ranges {
				if bytes.Compare(r[0], r[1]) > 0 {
					return "bad-op"
				}
			}
			ioutil.WriteFile(data, []byte(dataFile(string(ver), in.ranges, f[3])), 0644)
			var lerr error
			if mod == nil {
				var m *mod_trust_clientip.VerifC29Module
				if m, lerr = mod_trust_clientip.VerifC29Init(root); lerr == nil {
					mod = m
				} else if f[3] == "ok" {
					return "err:init"
				} else {
					return "bad-op" // the first load must be a good one (bfe would not start)
				}
			} else {
				lerr = mod.Reload()
			}
			if lerr == nil {
				out = append(out, "L=ok")
			} else {
				out = append(out, "L=err")
			}
		case len(f) == 2 && f[0] == "C":
			in, ok := decode(f[1])
			if !ok || mod == nil || len(in.ranges) != 0 || !checkInput(in, f[1]) {
				return "bad-op"
			}
			m := mod
			out = append(out, runConn(in, func(s *bfe_basic.Session) error { m.Accept(s); return nil }))
		case len(f) == 2 && f[0] == "W":
			parts := strings.SplitN(f[1], ";sk=", 2)
			if len(parts) != 2 || mod == nil {
				return "bad-op"
			}
			in, ok := decode(parts[0])
			if !ok || len(in.ranges) != 0 || !checkInput(in, parts[0]) {
				return "bad-op"
			}
			ex := strings.Split(parts[1], ";")
			if len(ex) != 3 || !strings.HasPrefix(ex[1], "px=") || !strings.HasPrefix(ex[2], "seg=") {
				return "bad-op"
			}
			sk := strings.Split(ex[0], ":")
			skip, ok1 := vh.UnHex(sk[0])
			if len(sk) != 2 || !ok1 || len(skip) != 16 {
				return "bad-op"
			}
			skport, err := strconv.Atoi(sk[1])
			if err != nil {
				return "bad-op"
			}
			r := wireConn(in, net.IP(skip), skport, ex[1][3:], ex[2][4:], mod)
			if r == "" {
				return "bad-op"
			}
			out = append(out, r)
		default:
			return "bad-op"
		}
	}
	return strings.Join(out, "/")
}

type segConn struct {
	fakeConn
	r *c25lib.SegReader
}

func (c *segConn) Read(b []byte) (int, error) { return c.r.Read(b) }

// wireConn: the connection of in, from wire bytes, through the real listener/conn path ("" = op not well-formed).
func wireConn(in *input, sock net.IP, sockPort int, px, seg string, mod *mod_trust_clientip.VerifC29Module) string {
	var b strings.Builder
	local := net.ParseIP(in.local)
	switch px {
	case "none", "bare":
	case "unknown":
		b.WriteString("PROXY UNKNOWN\r\n")
	case "v1":
		fam := "TCP6"
		l := "2001:db8::ff"
		if in.peer.To4() != nil {
			fam, l = "TCP4", "10.9.8.7"
		}
		b.WriteString(fmt.Sprintf("PROXY %s %s %s %d 8080\r\n", fam, in.peer.String(), l, in.port))
	default:
		return ""
	}
	if in.host == "" {
		return ""
	}
	b.WriteString("GET / HTTP/1.1\r\nHost: " + in.host + "\r\n")
	keys := make([]string, 0, len(in.hdr))
	for k := range in.hdr {
		keys = append(keys, k)
	}
	sortStrings(keys)
	for _, k := range keys {
		if len(in.hdr[k]) == 0 {
			return ""
		}
		for _, v := range in.hdr[k] {
			if v != strings.TrimSpace(v) || strings.ContainsAny(v, "\r\n") || strings.Trim(v, " \t") != v {
				return ""
			}
			b.WriteString(k + ": " + v + "\r\n")
		}
	}
	b.WriteString("\r\n")
	sr, ok := c25lib.NewSegReader([]byte(b.String()), seg)
	if !ok {
		return ""
	}
	conn := &segConn{fakeConn: fakeConn{local: &net.TCPAddr{IP: local, Port: 8080}, remote: &net.TCPAddr{IP: sock, Port: sockPort}}, r: sr}
	balancer := "PROXY"
	if px == "none" {
		balancer = "NONE"
	}
	req, err := bfe_server.VerifC29Conn(conn, balancer, mod.Cbs)
	if err != nil || req == nil {
		return "reject"
	}
	hreq := req.HttpRequest
	mod_header.VerifSetDefaultHeader(req)
	outreq := new(bfe_http.Request)
	*outreq = *hreq
	bfe_server.VerifHttpProtoSet(outreq)
	bfe_server.VerifHopByHopHeaderRemove(outreq, hreq)
	ca := "nil"
	if req.ClientAddr != nil {
		ca = hx(req.ClientAddr.IP.String()) + ":" + strconv.Itoa(req.ClientAddr.Port)
	}
	return "ca=" + ca + " hd=" + c25lib.HeaderString(nonEmpty(hreq.Header)) + " up=" + c25lib.HeaderString(nonEmpty(outreq.Header))
}

func exec(op string) string {
	f := strings.Split(op, " ")
	switch {
	case len(f) == 2 && f[0] == "ca":
		return execCa(f[1])
	case len(f) == 2 && f[0] == "rl":
		return execHistory(f[1])
	}
	return "bad-op"
}

// ---------------------------------------------------------------- generation

func randIP(r *vh.Rand, v6 bool) net.IP {
	if v6 {
		b := make([]byte, 16)
		copy(b, []byte{0x20, 0x01, 0x0d, 0xb8})
		b[15] = byte(r.Intn(8))
		b[14] = byte(r.Intn(2))
		if r.Chance(1, 4) {
			copy(b, r.Bytes(16))
			if b[0] == 0 {
				b[0] = 0x20
			}
		}
		return net.IP(b)
	}
	return net.IPv4(10, byte(r.Intn(2)), byte(r.Intn(2)), byte(r.Intn(8))).To16()
}

func add(ip net.IP, d int) net.IP {
	out := append(net.IP(nil), ip.To16()...)
	for i := 15; i >= 0 && d != 0; i-- {
		v := int(out[i]) + d
		out[i] = byte(v & 0xff)
		d = v >> 8
	}
	return out
}

func ipText(r *vh.Rand, v6 bool) string {
	switch r.Intn(8) {
	case 0:
		return r.Pick("", "unknown", "1.2.3", "1.2.3.4.5", "01.2.3.4", "::g", "1.2.3.4:80", " 1.2.3.4")
	case 1:
		return r.Pick("::ffff:1.2.3.4", "2001:DB8::1", "0:0:0:0:0:0:0:1", "fe80::1%eth0")
	}
	return randIP(r, v6).String()
}

func portText(r *vh.Rand) string {
	return r.Pick("80", "443", "65535", "65536", "70000", "0", "", "-1", "+7", "abc", "99999999999999999999", " 80", "8080")
}

func gen(r *vh.Rand) string {
	if r.Chance(1, 5) {
		return genHistory(r)
	}
	return genConn(r)
}

func genConn(r *vh.Rand) string {
	in := &input{hdr: map[string][]string{}}
	v6 := r.Chance(1, 3)
	in.peer = randIP(r, v6)
	in.peerText = in.peer.String()
	in.port = []int{0, 1, 80, 4242, 65535}[r.Intn(5)]
	in.host = r.Pick("example.com", "a:8080", "")
	in.local = r.Pick("10.9.8.7", "192.168.1.1", "2001:db8::ff")
	// trust table: ranges around the peer and elsewhere
	nr := r.Intn(4)
	for i := 0; i < nr; i++ {
		var a, b net.IP
		switch r.Intn(8) {
		case 0: // exactly the peer
			a, b = in.peer, in.peer
		case 1: // ends just before
			b = add(in.peer, -1)
			a = add(b, -r.Intn(5))
		case 2: // starts just after
			a = add(in.peer, 1)
			b = add(a, r.Intn(5))
		case 3: // peer is the first / last element
			if r.Bool() {
				a, b = in.peer, add(in.peer, r.Intn(6))
			} else {
				a, b = add(in.peer, -r.Intn(6)), in.peer
			}
		case 4: // around
			a, b = add(in.peer, -r.Range(1, 300)), add(in.peer, r.Range(1, 300))
		default:
			a = randIP(r, r.Chance(1, 3))
			b = add(a, r.Intn(4))
		}
		if bytes.Compare(a, b) > 0 || a.Equal(net.IPv6zero) {
			continue
		}
		in.ranges = append(in.ranges, [2]net.IP{a, b})
	}
	// headers
	set := func(k string, vs ...string) { in.hdr[k] = vs }
	if r.Chance(2, 3) {
		vs := []string{ipText(r, v6)}
		if r.Chance(1, 5) {
			vs = append(vs, ipText(r, v6))
		}
		if r.Chance(1, 10) {
			vs = []string{}
		}
		set("X-Real-Ip", vs...)
	}
	if r.Chance(1, 2) {
		set("X-Real-Port", portText(r))
	}
	if r.Chance(2, 3) {
		n := r.Range(1, 3)
		var parts []string
		for i := 0; i < n; i++ {
			parts = append(parts, r.Pick("", " ", "  ")+ipText(r, v6)+r.Pick("", " "))
		}
		vs := []string{strings.Join(parts, ",")}
		if r.Chance(1, 5) {
			vs = append(vs, ipText(r, v6))
		}
		if r.Chance(1, 12) {
			vs = []string{}
		}
		set("X-Forwarded-For", vs...)
	}
	if r.Chance(1, 2) {
		set("X-Forwarded-Port", portText(r)+r.Pick("", ", 81", ",82"))
	}
	if r.Chance(1, 4) {
		set("X-Forwarded-Host", r.Pick("evil.example", "", "a, b"))
	}
	if r.Chance(1, 6) {
		set("X-Bfe-Ip", "6.6.6.6")
	}
	if r.Chance(1, 3) {
		set("Accept", "*/*")
	}
	if r.Chance(1, 3) { // the client's Connection header names headers (BFE's own among them)
		n := r.Range(1, 3)
		var toks []string
		for i := 0; i < n; i++ {
			toks = append(toks, r.Pick("", " ")+r.Pick("X-Real-Ip", "x-real-port", "X-Forwarded-For", "x-forwarded-port", "X-Forwarded-Host",
				"X-Bfe-Ip", "close", "keep-alive", "Accept", "x-bfe-log-id", "X-Nope")+r.Pick("", " "))
		}
		vs := []string{strings.Join(toks, ",")}
		if r.Chance(1, 5) {
			vs = append([]string{""}, vs...)
		}
		set("Connection", vs...)
	}
	in.facts()
	return in.encode()
}

func verText(r *vh.Rand) string { return r.Pick("v1", "v1", "v2", "", "2026-01-01", "v1.1") }

func rangesText(rs [][2]net.IP) string {
	if len(rs) == 0 {
		return "_"
	}
	var out []string
	for _, x := range rs {
		out = append(out, vh.Hex(x[0].To16())+"-"+vh.Hex(x[1].To16()))
	}
	return strings.Join(out, ",")
}

// genHistory: initial load, then reloads (same / different / empty Version; peers added and removed; files the loader
// refuses) interleaved with connections from the peers concerned, carrying spoofed address headers.
func genHistory(r *vh.Rand) string {
	p1 := randIP(r, r.Chance(1, 4))
	p2 := add(p1, r.Range(1, 9))
	peers := []net.IP{p1, p2}
	mkRanges := func() [][2]net.IP {
		var rs [][2]net.IP
		for _, p := range peers {
			if r.Bool() {
				rs = append(rs, [2]net.IP{p, p})
			}
		}
		if r.Chance(1, 4) {
			a := randIP(r, false)
			rs = append(rs, [2]net.IP{a, add(a, r.Intn(5))})
		}
		return rs
	}
	ver := verText(r)
	steps := []string{"L." + hx(ver) + "." + rangesText(mkRanges()) + ".ok"}
	connStep := func() string {
		in := &input{hdr: map[string][]string{}}
		in.peer = peers[r.Intn(2)]
		in.peerText = in.peer.String()
		in.port = []int{1, 80, 4242}[r.Intn(3)]
		in.host = "example.com"
		in.local = "10.9.8.7"
		if r.Chance(3, 4) {
			in.hdr["X-Real-Ip"] = []string{r.Pick("1.1.1.1", "2001:db8::9", "bogus")}
		}
		if r.Chance(1, 2) {
			in.hdr["X-Real-Port"] = []string{r.Pick("1", "70000")}
		}
		if r.Chance(1, 2) {
			in.hdr["X-Forwarded-For"] = []string{"2.2.2.2, 3.3.3.3"}
		}
		if r.Chance(1, 4) {
			in.hdr["Connection"] = []string{r.Pick("X-Real-Ip", "x-forwarded-for, x-real-port", "close")}
		}
		in.facts()
		base := strings.TrimPrefix(in.encode(), "ca ")
		if !r.Chance(1, 2) {
			return "C." + base
		}
		// the same connection from wire bytes through the real listener / conn path
		px := r.Pick("none", "none", "v1", "v1", "unknown", "bare")
		sock, sockPort := in.peer, in.port
		if px == "v1" { // the socket peer is the load balancer, the PROXY header carries the client
			sock, sockPort = net.ParseIP(r.Pick("10.200.0.1", "2001:db8:ffff::1")), 33333
		}
		seg := r.Pick("-", "-", "1", "e1", "c5,6,7,30", "ec3,40,41,42")
		return "W." + base + ";sk=" + vh.Hex(sock.To16()) + ":" + strconv.Itoa(sockPort) + ";px=" + px + ";seg=" + seg
	}
	n := r.Range(2, 7)
	for i := 0; i < n; i++ {
		if r.Chance(2, 5) {
			kind := "ok"
			if r.Chance(1, 5) {
				kind = r.Pick("badjson", "nover", "badrange", "badip")
			}
			if !r.Chance(1, 2) { // half of the reloads keep the Version
				ver = verText(r)
			}
			steps = append(steps, "L."+hx(ver)+"."+rangesText(mkRanges())+"."+kind)
			steps = append(steps, connStep())
		} else {
			steps = append(steps, connStep())
		}
	}
	return "rl " + strings.Join(steps, "/")
}

func pre(emit func(string), thorough bool) {
	mk := func(trust bool, hdr map[string][]string) string {
		peer := net.IPv4(10, 0, 0, 5).To16()
		in := &input{peer: peer, peerText: peer.String(), port: 4242, host: "example.com", local: "10.9.8.7", hdr: hdr}
		if trust {
			in.ranges = [][2]net.IP{{net.IPv4(10, 0, 0, 0).To16(), net.IPv4(10, 0, 0, 255).To16()}}
		} else {
			in.ranges = [][2]net.IP{{net.IPv4(10, 0, 0, 6).To16(), net.IPv4(10, 0, 0, 255).To16()}}
		}
		in.facts()
		return in.encode()
	}
	spoof := map[string][]string{"X-Real-Ip": {"1.1.1.1"}, "X-Real-Port": {"1"}, "X-Forwarded-For": {"2.2.2.2, 3.3.3.3"}, "X-Forwarded-Port": {"2"}}
	emit(mk(false, spoof))
	emit(mk(true, spoof))
	emit(mk(true, map[string][]string{"X-Forwarded-For": {" 2.2.2.2 , 3.3.3.3"}, "X-Forwarded-Port": {"77,78"}}))
	emit(mk(true, map[string][]string{"X-Real-Ip": {"bogus"}, "X-Forwarded-For": {"2.2.2.2"}}))
	emit(mk(true, map[string][]string{}))
	emit(mk(false, map[string][]string{}))
	// the client names BFE's own headers in its Connection header: they must still reach the backend
	emit(mk(false, map[string][]string{"Connection": {"X-Real-Ip, x-real-port, X-Forwarded-For"}, "X-Real-Ip": {"1.1.1.1"}}))
	emit(mk(true, map[string][]string{"Connection": {"X-Real-Ip"}, "X-Real-Ip": {"1.1.1.1"}}))
	// reload history: peer 10.0.0.5 trusted, then removed by a reload that KEEPS the Version, then a refused file
	c := func(hdr map[string][]string) string {
		return "C." + strings.TrimPrefix(strings.Replace(mk(false, hdr), "t=00000000000000000000ffff0a000006-00000000000000000000ffff0a0000ff", "t=_", 1), "ca ")
	}
	p5 := "00000000000000000000ffff0a000005"
	spoofed := map[string][]string{"X-Real-Ip": {"1.1.1.1"}, "X-Real-Port": {"1"}}
	emit("rl L." + hx("v1") + "." + p5 + "-" + p5 + ".ok/" + c(spoofed) + "/L." + hx("v1") + "._.ok/" + c(spoofed) +
		"/L." + hx("v2") + "." + p5 + "-" + p5 + ".badjson/" + c(spoofed) + "/L." + hx("") + "." + p5 + "-" + p5 + ".ok/" + c(spoofed) +
		"/L." + hx("") + "._.ok/" + c(spoofed))
}

func main() {
	vh.Pre = pre
	vh.Main(gen, exec)
}
