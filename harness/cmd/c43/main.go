// C43: CBC padding removal — drives the real bfe_tls.removePadding (verif hook VerifRemovePadding).
package main

import (
	"fmt"
	"strings"

	"bfeverif/harness/internal/vh"
	"github.com/bfenetworks/bfe/bfe_tls"
)

func gen(r *vh.Rand) string {
	var n int
	switch r.Intn(10) {
	case 0:
		n = r.Range(0, 3)
	case 1, 2:
		n = r.Range(250, 262) // around the 256 window
	case 3:
		n = r.Range(256, 600)
	default:
		n = r.Range(1, 48)
	}
	b := r.Bytes(n)
	if n > 0 && !r.Chance(1, 8) {
		// mostly-valid: write a padding of length p+1, then maybe corrupt one padding byte
		p := r.Intn(n)
		if r.Chance(1, 4) {
			p = n - 1 // padding covers the whole payload
		}
		if r.Chance(1, 10) && n >= 256 {
			p = 255
		}
		if p > 255 {
			p = 255
		}
		for i := 0; i <= p && i < n; i++ {
			b[n-1-i] = byte(p)
		}
		switch r.Intn(4) {
		case 0: // corrupt one byte inside the padding
			i := r.Intn(p + 1)
			b[n-1-i] ^= byte(1 << uint(r.Intn(8)))
		case 1: // corrupt the first padding byte (the one the old code skipped)
			b[n-1-p] ^= byte(1 + r.Intn(255))
		}
	}
	if r.Chance(1, 4) {
		// SSL 3.0 variant: only the last byte matters; bias it to the boundaries n-1, n, 255
		if n > 0 {
			switch r.Intn(4) {
			case 0:
				b[n-1] = byte(n - 1)
			case 1:
				b[n-1] = byte(n)
			case 2:
				b[n-1] = 255
			}
		}
		return "rp30 " + vh.Hex(b)
	}
	return "rp " + vh.Hex(b)
}

func exec(op string) string {
	f := strings.Fields(op)
	if len(f) != 2 || (f[0] != "rp" && f[0] != "rp30") {
		return "bad-op"
	}
	b, ok := vh.UnHex(f[1])
	if !ok {
		return "bad-op"
	}
	in := append([]byte(nil), b...)
	if f[0] == "rp30" {
		out, good := bfe_tls.VerifRemovePaddingSSL30(in)
		return fmt.Sprintf("%d %s", good, vh.Hex(out))
	}
	out, good := bfe_tls.VerifRemovePadding(in)
	return fmt.Sprintf("%d %s", good, vh.Hex(out))
}

func main() { vh.Main(gen, exec) }
