// C43: CBC padding removal — drives the real bfe_tls.removePadding (verif hook VerifRemovePadding).
package main

import (
	"fmt"
	"strconv"
	"strings"

	"bfeverif/harness/internal/vh"
	"github.com/bfenetworks/bfe/bfe_tls"
)

// genDec: one CBC record through the real halfConn.decrypt: `dec <vers> <n> <plaintext hex>`.
func genDec(r *vh.Rand) string {
	vers := []uint16{0x0300, 0x0301, 0x0301, 0x0302, 0x0303}[r.Intn(5)]
	n := r.Range(0, 45)
	t := 16 - (n+20)%16 // padding region length, 1..16, plus whole blocks
	switch r.Intn(6) {
	case 0:
		t += 16
	case 1:
		t += 16 * r.Range(1, 16)
	}
	p := r.Bytes(n + 20 + t)
	tail := p[n+20:]
	for i := range tail {
		tail[i] = byte(t - 1)
	}
	switch r.Intn(8) {
	case 0, 1: // contents wrong, length byte right (valid for SSL 3.0 only)
		for i := 0; i < t-1; i++ {
			if r.Chance(1, 2) {
				tail[i] = byte(r.Intn(256))
			}
		}
		if t > 1 {
			tail[r.Intn(t-1)] ^= byte(1 + r.Intn(255))
		}
	case 2: // first padding byte wrong
		tail[0] ^= byte(1 + r.Intn(255))
	case 3: // length byte announces a shorter padding
		if t > 1 {
			q := r.Intn(t - 1)
			for i := 0; i <= q; i++ {
				tail[t-1-i] = byte(q)
			}
		}
	case 4: // length byte announces more than the padding region / the record
		tail[t-1] = byte(t - 1 + r.Range(1, 40))
	case 5:
		tail[t-1] = byte(r.Intn(256))
	}
	return fmt.Sprintf("dec %04x %d %s", vers, n, vh.Hex(p))
}

func gen(r *vh.Rand) string {
	if r.Chance(1, 3) {
		return genDec(r)
	}
	var n int
	switch r.Intn(10) {
	case 0:
		n = r.Range(0, 3)
	case 1, 2:
		n = r.Range(250, 262) // around the 256 window
	case 3:
		n = r.Range(256, 600)
	default:
		n = r.Range(1, 48)
	}
	b := r.Bytes(n)
	if n > 0 && !r.Chance(1, 8) {
		// mostly-valid: write a padding of length p+1, then maybe corrupt one padding byte
		p := r.Intn(n)
		if r.Chance(1, 4) {
			p = n - 1 // padding covers the whole payload
		}
		if r.Chance(1, 10) && n >= 256 {
			p = 255
		}
		if p > 255 {
			p = 255
		}
		for i := 0; i <= p && i < n; i++ {
			b[n-1-i] = byte(p)
		}
		switch r.Intn(4) {
		case 0: // corrupt one byte inside the padding
			i := r.Intn(p + 1)
			b[n-1-i] ^= byte(1 << uint(r.Intn(8)))
		case 1: // corrupt the first padding byte (the one the old code skipped)
			b[n-1-p] ^= byte(1 + r.Intn(255))
		}
	}
	if r.Chance(1, 4) {
		// SSL 3.0 variant: only the last byte matters; bias it to the boundaries n-1, n, 255
		if n > 0 {
			switch r.Intn(4) {
			case 0:
				b[n-1] = byte(n - 1)
			case 1:
				b[n-1] = byte(n)
			case 2:
				b[n-1] = 255
			}
		}
		return "rp30 " + vh.Hex(b)
	}
	return "rp " + vh.Hex(b)
}

func exec(op string) string {
	f := strings.Fields(op)
	if len(f) == 4 && f[0] == "dec" {
		v, ok1 := vh.UnHex(f[1])
		p, ok2 := vh.UnHex(f[3])
		n, err := strconv.Atoi(f[2])
		if !ok1 || !ok2 || err != nil || len(v) != 2 {
			return "bad-op"
		}
		ok, outLen := bfe_tls.VerifC43DecryptCBC(uint16(v[0])<<8|uint16(v[1]), n, p)
		if outLen == -1 {
			return "bad-op"
		}
		if ok {
			return fmt.Sprintf("1 %d", outLen)
		}
		return "0"
	}
	if len(f) != 2 || (f[0] != "rp" && f[0] != "rp30") {
		return "bad-op"
	}
	b, ok := vh.UnHex(f[1])
	if !ok {
		return "bad-op"
	}
	in := append([]byte(nil), b...)
	if f[0] == "rp30" {
		out, good := bfe_tls.VerifRemovePaddingSSL30(in)
		return fmt.Sprintf("%d %s", good, vh.Hex(out))
	}
	out, good := bfe_tls.VerifRemovePadding(in)
	return fmt.Sprintf("%d %s", good, vh.Hex(out))
}

func main() { vh.Main(gen, exec) }
