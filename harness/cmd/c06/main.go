// C06: backend health state machine — drives the real bfe_balance/backend.BfeBackend.
//
//	m mode: scripted sequential schedule of the lock-protected methods (AddFailNum, UpdateStatus, ResetFailNum,
//	        Release and the checker's ResetSuccNum/AddSuccNum/CheckAvail/SetRestart/SetAvail), one method = one step.
//	        The checker's control flow is replayed here step by step around the REAL methods.
//	g mode: the REAL check goroutine, started by the real backend.OnFail -> UpdateStatus -> go check.  It is gated in
//	        the CheckConfFetcher (called by check once per iteration, after the closeChan select, before the connect):
//	        the harness lets it run exactly one iteration at a time, against a local TCP listener (success) or
//	        127.0.0.1:1 (refused).  Observations are taken only when the goroutine is parked in the gate or gone.
//	x mode: storm of concurrent OnFail from many goroutines, then one successful check.
package main

import (
	"fmt"
	"net"
	"net/http"
	"runtime"
	"strconv"
	"strings"
	"sync"
	"sync/atomic"
	"time"

	"bfeverif/harness/internal/vh"
	"github.com/bfenetworks/bfe/bfe_balance/backend"
	"github.com/bfenetworks/bfe/bfe_config/bfe_cluster_conf/cluster_conf"
	"github.com/bfenetworks/bfe/bfe_config/bfe_cluster_conf/cluster_table_conf"
)

// ---------------------------------------------------------------- generators

func th(r *vh.Rand) int {
	switch r.Intn(20) {
	case 0:
		return r.Range(-1, 0)
	case 1, 2:
		return r.Range(4, 6)
	default:
		return r.Range(1, 3)
	}
}

func genM(r *vh.Rand) string {
	n := r.Range(4, 60)
	toks := []string{"m"}
	nck := 0 // upper bound of spawned checkers (the harness cannot know; indices beyond are no-ops)
	fth := th(r)
	sth := th(r)
	if sth < 1 && !r.Chance(1, 4) {
		sth = 1
	}
	released := false
	burst := 0
	lastIdx := 0
	for i := 0; i < n; i++ {
		if r.Chance(1, 25) {
			fth = th(r)
		}
		if r.Chance(1, 25) {
			sth = th(r)
		}
		c := r.Intn(100)
		if burst > 0 {
			burst--
			c = 99
		} else if r.Chance(1, 12) {
			burst = r.Range(3, 9) // let a checker run several atomic steps in a row
		}
		switch {
		case c < 22:
			toks = append(toks, "a")
		case c < 44:
			toks = append(toks, "u"+strconv.Itoa(fth))
			nck++
		case c < 50:
			toks = append(toks, "r")
		case c < 51 && !released:
			toks = append(toks, "R")
			released = true
		case c < 53 && released && r.Chance(1, 6):
			toks = append(toks, "R") // double release: panics (C09 territory), kept rare
		default:
			idx := 0
			if nck > 1 {
				// nck over-counts (most u do not spawn): mix low indices with the upper range
				switch r.Intn(4) {
				case 0:
					idx = r.Intn(nck + 1)
				case 1:
					idx = r.Intn(3)
				default:
					idx = lastIdx
				}
			}
			lastIdx = idx
			ok := "1"
			if r.Chance(1, 4) {
				ok = "0"
			}
			toks = append(toks, fmt.Sprintf("k%d:%s:%d", idx, ok, sth))
		}
	}
	return strings.Join(toks, " ")
}

func genG(r *vh.Rand) string {
	n := r.Range(3, 24)
	toks := []string{"g"}
	fth := r.Range(1, 3)
	sth := r.Range(1, 3)
	released := false
	for i := 0; i < n; i++ {
		if r.Chance(1, 15) {
			fth = th(r)
		}
		if r.Chance(1, 15) {
			sth = th(r)
			if sth < 1 {
				sth = 1
			}
		}
		c := r.Intn(100)
		switch {
		case c < 40:
			toks = append(toks, "F"+strconv.Itoa(fth))
		case c < 50:
			toks = append(toks, "S")
		case c < 54 && !released:
			toks = append(toks, "R")
			released = true
		case c < 57:
			toks = append(toks, "N")
		case c < 72:
			// http check: status sent by the server vs. the conf's expectation (exact code, 0 = any, 1..31 = class mask)
			code := []int{200, 200, 204, 301, 302, 404, 500, 503, 200 + r.Intn(400)}[r.Intn(9)]
			want := []int{200, 200, 0, 2, 6, 31, 16, 1, 404, 302, code, r.Intn(32), 600, 99}[r.Intn(14)]
			toks = append(toks, fmt.Sprintf("P%d:%d:%d", code, want, sth))
		default:
			ok := "1"
			if r.Chance(1, 3) {
				ok = "0"
			}
			toks = append(toks, fmt.Sprintf("H%s:%d", ok, sth))
		}
	}
	return strings.Join(toks, " ")
}

// vh.NewRand(seed+1) yields the stream of seed shifted by one draw, and the check seeds its shards with
// consecutive numbers; derive a private, decorrelated generator from the first outputs instead.
var own *vh.Rand

func gen(r0 *vh.Rand) string {
	if own == nil {
		own = vh.NewRand(r0.U64() ^ (r0.U64() << 1))
	}
	r := own
	c := r.Intn(100)
	switch {
	case c < 6:
		return genG(r)
	case c < 7:
		if r.Bool() {
			return fmt.Sprintf("x %d:%d:%d:%d", r.Range(2, 16), r.Range(1, 4), r.Range(1, 8), r.Range(2, 5))
		}
		return fmt.Sprintf("x %d:%d:%d", r.Range(2, 16), r.Range(1, 4), r.Range(1, 8))
	default:
		return genM(r)
	}
}

// ---------------------------------------------------------------- m mode

func b01(b bool) string {
	if b {
		return "1"
	}
	return "0"
}

func closed(b *backend.BfeBackend) bool {
	select {
	case <-b.CloseChan():
		return true
	default:
		return false
	}
}

func st5(b *backend.BfeBackend) string {
	return fmt.Sprintf("%s:%d:%d:%s:%s", b01(b.Avail()), b.FailNum(), b.SuccNum(), b01(b.GetRestart()), b01(closed(b)))
}

type simCk struct {
	pc string
	th int
}

// stepCk replays one atomic step of health_check.go:check around the real methods.
func stepCk(b *backend.BfeBackend, c *simCk, ok bool, th int) {
	switch c.pc {
	case "top":
		select {
		case <-b.CloseChan():
			c.pc = "done"
		default:
			c.pc = "conn"
		}
	case "conn":
		c.th = th
		if ok {
			c.pc = "as"
		} else {
			c.pc = "af"
		}
	case "af":
		b.ResetSuccNum()
		c.pc = "top"
	case "as":
		b.AddSuccNum()
		c.pc = "chk"
	case "chk":
		if b.CheckAvail(c.th) {
			c.pc = "sr"
		} else {
			c.pc = "top"
		}
	case "sr":
		b.SetRestart(true)
		c.pc = "sa"
	case "sa":
		b.SetAvail(true)
		c.pc = "done"
	}
}

func execM(toks []string) string {
	b := backend.NewBfeBackend()
	var cks []*simCk
	out := make([]string, 0, len(toks))
	for _, t := range toks {
		code := "?"
		switch {
		case t == "a":
			b.AddFailNum()
			code = "a"
		case t == "r":
			b.OnSuccess()
			code = "r"
		case t == "R":
			code = vh.Safe(func() string { b.Release(); return "R" })
			if strings.HasPrefix(code, "PANIC:") {
				if strings.Contains(code, "close of closed channel") {
					code = "P"
				} else {
					return code
				}
			}
		case strings.HasPrefix(t, "u"):
			v, err := strconv.Atoi(t[1:])
			if err != nil {
				return "bad-op"
			}
			if b.UpdateStatus(v) {
				cks = append(cks, &simCk{pc: "top"})
				code = "u1"
			} else {
				code = "u0"
			}
		case strings.HasPrefix(t, "k"):
			f := strings.Split(t[1:], ":")
			if len(f) != 3 {
				return "bad-op"
			}
			i, e1 := strconv.Atoi(f[0])
			v, e2 := strconv.Atoi(f[2])
			if e1 != nil || e2 != nil || i < 0 {
				return "bad-op"
			}
			if i >= len(cks) {
				code = "none"
			} else {
				stepCk(b, cks[i], f[1] == "1", v)
				code = cks[i].pc
			}
		default:
			return "bad-op"
		}
		out = append(out, code+"="+st5(b))
	}
	return strings.Join(out, " ")
}

// ---------------------------------------------------------------- g mode (real goroutine)
//
// Every case has its own gate (keyed by a fresh cluster name), every wait is bounded, and a checker that outlives
// its case (a defect: it should stop once the backend is released) is parked "dormant" (one refused connect, then a
// one-hour CheckInterval sleep) and discounted from later cases through a baseline, so one bad case cannot wedge or
// distort the rest of the run.

type gate struct {
	name     string
	mu       sync.Mutex
	reqConf  *cluster_conf.BackendCheck // conf handed to request threads (FailNum)
	arrivals int64                      // how often a checker arrived at the gate
	ch       chan *cluster_conf.BackendCheck
	kill     chan struct{} // closed at the end of the case
	base     int           // check goroutines left over from earlier cases
}

var (
	gates     sync.Map // cluster name -> *gate
	caseNo    int64
	lnPort    int
	accepted  int64
	barrierCh = make(chan struct{}, 16)
)

// bounded waits are watchdogs only (30 s): timing never decides a verdict on a healthy run
var waitMax = 30 * time.Second

var hangs int // cases of this process whose 30 s watchdog expired

func isChecker() bool {
	buf := make([]byte, 8192)
	n := runtime.Stack(buf, false)
	return strings.Contains(string(buf[:n]), "bfe_balance/backend.check(")
}

var stackBuf = make([]byte, 1<<16)

// allCheckers counts goroutines that run health_check.go:check, including ones created by
// `go check(...)` in UpdateStatus that have not started yet (they show as UpdateStatus.gowrapN).
func allCheckers() int {
	for {
		n := runtime.Stack(stackBuf, true)
		if n < len(stackBuf) {
			k := 0
			for _, blk := range strings.Split(string(stackBuf[:n]), "\n\n") {
				if strings.Contains(blk, "bfe_balance/backend.check(") ||
					strings.Contains(blk, "bfe_balance/backend.UpdateStatus.gowrap") {
					k++
				}
			}
			return k
		}
		stackBuf = make([]byte, 2*len(stackBuf))
	}
}

func (g *gate) live() int {
	k := allCheckers() - g.base
	if k < 0 {
		k = 0
	}
	return k
}

func mkConf(failNum, succNum int, port int, intervalMs int) *cluster_conf.BackendCheck {
	schem := "tcp"
	host := ":" + strconv.Itoa(port)
	timeout := 30000
	uri := "/"
	sc := 200
	return &cluster_conf.BackendCheck{Schem: &schem, Uri: &uri, Host: &host, StatusCode: &sc,
		FailNum: &failNum, SuccNum: &succNum, CheckTimeout: &timeout, CheckInterval: &intervalMs}
}

// mkHTTPConf: http health check GET http://<backend addr>:<httpPort>/c/<code> with Host header verif.host:<httpPort>;
// success is decided by cluster_conf.MatchStatusCode(code, want).
func mkHTTPConf(succNum, code, want int) *cluster_conf.BackendCheck {
	c := mkConf(1, succNum, httpPort, 1)
	schem := "http"
	uri := "/c/" + strconv.Itoa(code)
	host := "verif.host:" + strconv.Itoa(httpPort)
	c.Schem, c.Uri, c.Host, c.StatusCode = &schem, &uri, &host, &want
	return c
}

var httpPort int

// the http check target: answers /c/<code> with that status (3xx with a Location to /c/200: a client that follows
// redirects would see 200), but only if the request is what the conf describes (GET, Host header = conf Host,
// Accept header); anything else gets 418.  Every request is counted.
func startHTTP() {
	ln, err := net.Listen("tcp", "127.0.0.1:0")
	if err != nil {
		panic(err)
	}
	httpPort = ln.Addr().(*net.TCPAddr).Port
	srv := &http.Server{Handler: http.HandlerFunc(func(w http.ResponseWriter, r *http.Request) {
		atomic.AddInt64(&accepted, 1)
		code := 418
		if strings.HasPrefix(r.URL.Path, "/c/") && r.Method == "GET" &&
			r.Host == "verif.host:"+strconv.Itoa(httpPort) && r.Header.Get("Accept") == "*/*" {
			if v, err := strconv.Atoi(r.URL.Path[3:]); err == nil && v >= 200 && v <= 599 { // 1xx would be sent as an informational response followed by 200
				code = v
			}
		}
		if code >= 300 && code < 400 {
			w.Header().Set("Location", "/c/200")
		}
		w.WriteHeader(code)
	})}
	go srv.Serve(ln)
}

func dormant() *cluster_conf.BackendCheck { return mkConf(1, 1<<30, 1, 3600*1000) }

func fetcher(cluster string) *cluster_conf.BackendCheck {
	v, ok := gates.Load(cluster)
	if !ok {
		return dormant()
	}
	g := v.(*gate)
	if !isChecker() {
		g.mu.Lock()
		c := g.reqConf
		g.mu.Unlock()
		return c
	}
	select {
	case <-g.kill:
		return dormant()
	default:
	}
	atomic.AddInt64(&g.arrivals, 1)
	select {
	case c := <-g.ch:
		return c
	case <-g.kill:
		return dormant()
	}
}

func startListener() {
	ln, err := net.Listen("tcp", "127.0.0.1:0")
	if err != nil {
		panic(err)
	}
	lnPort = ln.Addr().(*net.TCPAddr).Port
	go func() {
		for {
			c, err := ln.Accept()
			if err != nil {
				return
			}
			// a barrier connection sends one byte; health checks close without sending
			c.SetReadDeadline(time.Now().Add(2 * time.Second))
			var b [1]byte
			n, _ := c.Read(b[:])
			c.Close()
			if n == 1 {
				barrierCh <- struct{}{}
			} else {
				atomic.AddInt64(&accepted, 1)
			}
		}
	}()
}

// barrier returns after every connection made before it has been accepted and counted (FIFO accept queue,
// single accept loop).
func barrier() bool {
	c, err := net.DialTimeout("tcp", "127.0.0.1:"+strconv.Itoa(lnPort), waitMax)
	if err != nil {
		return false
	}
	defer c.Close()
	c.Write([]byte{1})
	select {
	case <-barrierCh:
		return true
	case <-time.After(waitMax):
		return false
	}
}

// waitQuiet waits (bounded) until a checker has arrived at the gate `wantArrivals` times in total, or fewer than
// `liveBelow` checkers of this case are alive (1 = none left; after letting ONE parked checker run: the number alive
// before, so that a second, wrongly started checker that stays parked does not keep us waiting).
func (g *gate) waitQuiet(wantArrivals int64, liveBelow int) bool {
	deadline := time.Now().Add(waitMax)
	for {
		if atomic.LoadInt64(&g.arrivals) >= wantArrivals {
			return true
		}
		if g.live() < liveBelow {
			return true
		}
		if time.Now().After(deadline) {
			return false
		}
		time.Sleep(250 * time.Microsecond)
	}
}

// pass lets the parked checker run one iteration with conf c (bounded).
func (g *gate) pass(c *cluster_conf.BackendCheck) bool {
	select {
	case g.ch <- c:
		return true
	case <-time.After(waitMax):
		return false
	}
}

var once sync.Once

func newCase() (*gate, *backend.BfeBackend) {
	once.Do(func() {
		startListener()
		startHTTP()
		backend.SetCheckConfFetcher(fetcher)
	})
	g := &gate{name: "verif-c06-" + strconv.FormatInt(atomic.AddInt64(&caseNo, 1), 10),
		ch: make(chan *cluster_conf.BackendCheck), kill: make(chan struct{})}
	g.base = allCheckers()
	gates.Store(g.name, g)
	b := backend.NewBfeBackend()
	name, addr, port, w := "b0", "127.0.0.1", lnPort, 1
	b.Init("sub", &cluster_table_conf.BackendConf{Name: &name, Addr: &addr, Port: &port, Weight: &w})
	return g, b
}

// finish releases the backend (what a reload does with a removed backend), lets a parked checker run the one
// iteration it is committed to, and reports how many check goroutines of this case are still alive afterwards:
// `end:0` is what the property demands.  Whatever is left is made dormant.
func (g *gate) finish(b *backend.BfeBackend, parked bool, arr int64) string {
	if !closed(b) {
		b.Release()
	}
	res := "end:0"
	if parked {
		lb := g.live()
		if !g.pass(mkConf(1, 1<<30, 1, 1)) {
			res = "end:HANG"
		} else if !g.waitQuiet(arr+1, lb) {
			res = "end:HANG"
		}
	} else if !g.waitQuiet(1<<60, 1) {
		res = "end:HANG"
	}
	if res == "end:0" {
		if n := g.live(); n != 0 {
			res = "end:" + strconv.Itoa(n) // still running (e.g. parked in the gate again) although released
		}
	}
	close(g.kill)
	if res != "end:0" {
		// give leftovers a moment to fall into their dormant sleep so that the next baseline is stable
		time.Sleep(5 * time.Millisecond)
	}
	gates.Delete(g.name)
	return res
}

func (g *gate) obs7(b *backend.BfeBackend, base int64) string {
	if !barrier() {
		return "HANG:barrier"
	}
	return fmt.Sprintf("%s:%d:%d", st5(b), g.live(), atomic.LoadInt64(&accepted)-base)
}

func execG(toks []string) (res string) {
	g, b := newCase()
	if !barrier() {
		return "HANG:barrier"
	}
	base := atomic.LoadInt64(&accepted)
	arr := int64(0)
	parked := false // a checker is parked in the gate
	out := make([]string, 0, len(toks)+1)
	defer func() {
		end := g.finish(b, parked, arr)
		if !strings.HasPrefix(res, "bad-op") {
			res = strings.TrimSpace(res + " " + end)
		}
	}()
	for _, t := range toks {
		switch {
		case t == "S":
			b.OnSuccess()
		case t == "R":
			b.Release()
		case strings.HasPrefix(t, "F"):
			v, err := strconv.Atoi(t[1:])
			if err != nil {
				return "bad-op"
			}
			g.mu.Lock()
			g.reqConf = mkConf(v, 1, lnPort, 1)
			g.mu.Unlock()
			before := g.live()
			b.OnFail(g.name)
			if !parked {
				// a new checker either parks (arrival) or, if the backend is released, exits at once
				if g.live() > before || atomic.LoadInt64(&g.arrivals) > arr {
					if !g.waitQuiet(arr+1, 1) {
						return strings.Join(append(out, "HANG:spawn"), " ")
					}
					if atomic.LoadInt64(&g.arrivals) > arr {
						arr = atomic.LoadInt64(&g.arrivals)
						parked = true
					}
				}
			}
		case t == "N":
			g.mu.Lock()
			g.reqConf = nil // no health-check conf for the cluster: the failure is counted, the status stays
			g.mu.Unlock()
			b.OnFail(g.name)
		case strings.HasPrefix(t, "H") || strings.HasPrefix(t, "P"):
			f := strings.Split(t[1:], ":")
			var conf *cluster_conf.BackendCheck
			if t[0] == 'H' {
				if len(f) != 2 {
					return "bad-op"
				}
				v, err := strconv.Atoi(f[1])
				if err != nil {
					return "bad-op"
				}
				port := 1
				if f[0] == "1" {
					port = lnPort
				}
				conf = mkConf(1, v, port, 1)
				// the other branches of getHealthCheckAddrInfo / checkTCPConnect, chosen by the position in the script:
				// no Host or a Host without port (the backend's own address is dialled), no CheckTimeout (net.Dial)
				if f[0] == "1" {
					switch len(out) % 4 {
					case 1:
						conf.Host = nil
					case 2:
						h := "verif.host"
						conf.Host = &h
					}
				}
				if len(out)%3 == 1 {
					conf.CheckTimeout = nil
				}
			} else {
				if len(f) != 3 {
					return "bad-op"
				}
				code, e1 := strconv.Atoi(f[0])
				want, e2 := strconv.Atoi(f[1])
				v, e3 := strconv.Atoi(f[2])
				if e1 != nil || e2 != nil || e3 != nil || code < 100 || code > 599 || want < 0 {
					return "bad-op"
				}
				conf = mkHTTPConf(v, code, want)
				if len(out)%3 == 2 {
					conf.CheckTimeout = nil // http client without timeout
				}
			}
			if parked {
				lb := g.live()
				if !g.pass(conf) {
					return strings.Join(append(out, "HANG:gate"), " ")
				}
				parked = false
				if !g.waitQuiet(arr+1, lb) {
					return strings.Join(append(out, "HANG:iteration"), " ")
				}
				if atomic.LoadInt64(&g.arrivals) > arr {
					arr = atomic.LoadInt64(&g.arrivals)
					parked = true
				}
			}
		default:
			return "bad-op"
		}
		out = append(out, g.obs7(b, base))
	}
	return strings.Join(out, " ")
}

func execX(spec string) (res string) {
	f := strings.Split(spec, ":")
	if len(f) != 3 && len(f) != 4 {
		return "bad-op"
	}
	nt, e1 := strconv.Atoi(f[0])
	per, e2 := strconv.Atoi(f[1])
	v, e3 := strconv.Atoi(f[2])
	rounds := 1
	if len(f) == 4 {
		var e4 error
		if rounds, e4 = strconv.Atoi(f[3]); e4 != nil || rounds < 1 || rounds > 16 {
			return "bad-op"
		}
	}
	if e1 != nil || e2 != nil || e3 != nil || nt < 1 || nt > 64 || per < 1 || per > 64 {
		return "bad-op"
	}
	g, b := newCase()
	if !barrier() {
		return "HANG:barrier"
	}
	base := atomic.LoadInt64(&accepted)
	arr := int64(0)
	parked := false
	var out []string
	defer func() {
		res = strings.TrimSpace(res + " " + g.finish(b, parked, arr))
	}()
	g.mu.Lock()
	g.reqConf = mkConf(v, 1, lnPort, 1)
	g.mu.Unlock()
	for round := 0; round < rounds; round++ {
		var wg sync.WaitGroup
		start := make(chan struct{})
		for i := 0; i < nt; i++ {
			wg.Add(1)
			go func() {
				defer wg.Done()
				<-start
				for k := 0; k < per; k++ {
					b.OnFail(g.name)
					runtime.Gosched()
				}
			}()
		}
		close(start)
		wg.Wait()
		if !parked && !b.Avail() {
			if !g.waitQuiet(arr+1, 1) {
				return strings.Join(append(out, "HANG:spawn"), " ")
			}
			// give a (wrong) second checker the chance to show up
			time.Sleep(2 * time.Millisecond)
			if atomic.LoadInt64(&g.arrivals) > arr {
				arr = atomic.LoadInt64(&g.arrivals)
				parked = true
			}
		}
		out = append(out, g.obs7(b, base))
		if parked {
			lb := g.live()
			if !g.pass(mkConf(1, 1, lnPort, 1)) {
				return strings.Join(append(out, "HANG:gate"), " ")
			}
			parked = false
			if !g.waitQuiet(arr+1, lb) {
				return strings.Join(append(out, "HANG:iteration"), " ")
			}
			if atomic.LoadInt64(&g.arrivals) > arr {
				arr = atomic.LoadInt64(&g.arrivals)
				parked = true
			}
		}
		out = append(out, g.obs7(b, base))
	}
	return strings.Join(out, " ")
}

// once several cases have really waited out the 30 s watchdog, later cases get 3 s: a defect that wedges many cases
// must not stall the whole run
func countHang(res string) string {
	if strings.Contains(res, "HANG") {
		hangs++
		if hangs >= 4 {
			waitMax = 3 * time.Second
		}
	}
	return res
}

func exec(op string) string {
	f := strings.Fields(op)
	if len(f) < 1 {
		return "bad-op"
	}
	switch f[0] {
	case "m":
		return execM(f[1:])
	case "g":
		return countHang(vh.SafeTimeout(120*time.Second, func() string { return execG(f[1:]) }))
	case "x":
		if len(f) != 2 {
			return "bad-op"
		}
		return countHang(vh.SafeTimeout(120*time.Second, func() string { return execX(f[1]) }))
	}
	return "bad-op"
}

func main() { vh.Main(gen, exec) }
