// C45: TLS handshake messages round-trip and parse safely.
//
//	rt <kind> <fields>   build the message from its fields, REAL marshal, REAL unmarshal of the result
//	um <kind> <hex>      REAL unmarshal of arbitrary bytes (mutations of marshalled messages, random bytes)
//	ex <kind> <hex>      kinds without a Lean model here (sessionState, modelled under C44):
//	                     real unmarshal under recover(); accepted values must survive marshal∘unmarshal unchanged
//
// all through the verif hooks of bfe_tls (zz_verif_c45.go); a panic is reported by vh as PANIC:<msg>.
package main

import (
	"strings"

	"bfeverif/harness/internal/vh"
	"github.com/bfenetworks/bfe/bfe_tls"
)

var kinds = []string{"fin", "ske", "cke", "shd", "cst", "npn", "nst", "cv0", "cv1", "crt", "chl", "shl", "cr0", "cr1",
	"chl", "shl", "chl"} // the hello messages carry most of the parsing logic: weighted up
var exKinds = []string{"sst"}

func parseFields(kind, fs string) ([][]byte, bool) {
	if kind == "crt" {
		if fs == "none" {
			return nil, true
		}
		var out [][]byte
		for _, c := range strings.Split(fs, ",") {
			b, ok := vh.UnHex(c)
			if !ok {
				return nil, false
			}
			out = append(out, append([]byte{}, b...))
		}
		return out, true
	}
	var out [][]byte
	for _, c := range strings.Split(fs, ":") {
		b, ok := vh.UnHex(c)
		if !ok {
			return nil, false
		}
		out = append(out, b)
	}
	return out, true
}

func exec(op string) string {
	f := strings.Split(op, " ")
	if len(f) != 3 {
		return "bad-op"
	}
	switch f[0] {
	case "um":
		d, ok := vh.UnHex(f[2])
		if !ok {
			return "bad-op"
		}
		return bfe_tls.VerifC45Unmarshal(f[1], d)
	case "rt":
		fl, ok := parseFields(f[1], f[2])
		if !ok {
			return "bad-op"
		}
		m, ok := bfe_tls.VerifC45Marshal(f[1], fl)
		if !ok {
			return "bad-op"
		}
		return "m=" + vh.Hex(m) + " u=" + bfe_tls.VerifC45Unmarshal(f[1], m)
	case "rh":
		if len(f[1]) != 2 {
			return "bad-op"
		}
		var chunks [][]byte
		for _, c := range strings.Split(f[2], ",") {
			b, ok := vh.UnHex(c)
			if !ok {
				return "bad-op"
			}
			chunks = append(chunks, b)
		}
		vers := uint16(0x0301)
		if f[1][1] == '1' {
			vers = 0x0303
		}
		return bfe_tls.VerifC45ReadHandshake(vers, f[1][0] == '1', chunks)
	case "ex":
		d, ok := vh.UnHex(f[2])
		if !ok {
			return "bad-op"
		}
		return bfe_tls.VerifC45Reparse(f[1], d)
	}
	return "bad-op"
}

// size biased to the 1-, 2- and 3-byte length boundaries
func genLen(r *vh.Rand) int {
	switch r.Intn(16) {
	case 0:
		return 0
	case 1:
		return 1
	case 2:
		return []int{253, 254, 255, 256, 257, 258}[r.Intn(6)]
	case 3:
		if r.Chance(1, 3) {
			return []int{65525, 65529, 65531, 65533, 65534, 65535, 65536, 65537, 65540}[r.Intn(9)]
		}
		return r.Range(200, 300)
	case 4:
		return []int{29, 30, 31, 32, 33, 61, 62, 63}[r.Intn(8)] // nextProto padding boundaries
	default:
		return r.Range(2, 40)
	}
}

func genFields(r *vh.Rand, kind string) string {
	h := func(n int) string { return vh.Hex(r.Bytes(n)) }
	switch kind {
	case "chl":
		return genCHL(r)
	case "shl":
		return genSHL(r)
	case "cr0", "cr1":
		return genCR(r, kind == "cr1")
	case "shd":
		return "-"
	case "cst":
		t := byte(1)
		if r.Chance(1, 4) {
			t = byte(r.Intn(256))
		}
		n := genLen(r)
		if t != 1 && !r.Chance(1, 4) {
			n = 0
		}
		return vh.Hex([]byte{t}) + ":" + h(n)
	case "cv1":
		return h(1) + ":" + h(1) + ":" + h(genLen(r))
	case "crt":
		k := r.Intn(5)
		if k == 0 {
			return "none"
		}
		var cs []string
		for i := 0; i < k; i++ {
			n := genLen(r)
			if n == 0 && !r.Chance(1, 3) {
				n = 1
			}
			if n > 300 && i > 0 {
				n = r.Range(1, 20)
			}
			cs = append(cs, h(n))
		}
		return strings.Join(cs, ",")
	}
	return h(genLen(r))
}

// extStart returns the offset of the 2-byte extensions length of a hello message (or -1).
func extStart(kind string, m []byte) int {
	if (kind != "chl" && kind != "shl") || len(m) < 39 {
		return -1
	}
	o := 39 + int(m[38])
	if kind == "chl" {
		if o+2 > len(m) {
			return -1
		}
		o += 2 + (int(m[o])<<8 | int(m[o+1]))
		if o+1 > len(m) {
			return -1
		}
		o += 1 + int(m[o])
	} else {
		o += 3
	}
	if o+2 > len(m) {
		return -1
	}
	return o
}

// truncFix cuts a hello message at offset k inside its extension area and repairs the OUTER length fields
// (extensions length, length of the extension that contains k), so that the cut is only visible to the
// checks inside that extension.
func truncFix(kind string, m []byte, k int) []byte {
	e := extStart(kind, m)
	if e < 0 || k < e+2 || k > len(m) {
		return nil
	}
	out := append([]byte(nil), m[:k]...)
	n := k - (e + 2)
	out[e], out[e+1] = byte(n>>8), byte(n)
	o := e + 2
	for o+4 <= len(m) {
		l := int(m[o+2])<<8 | int(m[o+3])
		if k >= o+4 && k <= o+4+l {
			n := k - (o + 4)
			out[o+2], out[o+3] = byte(n>>8), byte(n)
			break
		}
		o += 4 + l
	}
	return out
}

// fixLen3 rewrites the 3-byte handshake length so that it agrees with the (cut) message: the cut is then only
// visible to the checks behind the outer length test
func fixLen3(m []byte) []byte {
	if len(m) < 4 {
		return m
	}
	out := append([]byte(nil), m...)
	n := len(m) - 4
	out[1], out[2], out[3] = byte(n>>16), byte(n>>8), byte(n)
	return out
}

// mutateK is mutate with half of the truncations placed on a structural boundary of the message
func mutateK(r *vh.Rand, kind string, m []byte) []byte {
	if r.Chance(1, 2) {
		bs := boundaries(kind, m)
		k := bs[r.Intn(len(bs))]
		if k >= 0 && k <= len(m) {
			switch r.Intn(4) {
			case 0: // cut with the outer lengths repaired
				if t := truncFix(kind, m, k); t != nil {
					return t
				}
			case 1: // perturb the byte at the boundary (a length prefix more often than not)
				if k < len(m) {
					out := append([]byte(nil), m...)
					out[k] = []byte{out[k] + 1, out[k] - 1, 0xff, 0, out[k] + 2}[r.Intn(5)]
					return out
				}
			}
			if r.Bool() {
				return fixLen3(m[:k])
			}
			return append([]byte(nil), m[:k]...)
		}
	}
	if r.Chance(1, 4) && len(m) > 4 {
		return fixLen3(m[:r.Range(4, len(m))])
	}
	return mutate(r, m)
}

func mutate(r *vh.Rand, m []byte) []byte {
	m = append([]byte(nil), m...)
	switch r.Intn(9) {
	case 0: // truncate
		if len(m) > 0 {
			m = m[:r.Intn(len(m))]
		}
	case 1: // truncate near the front
		k := r.Intn(12)
		if k < len(m) {
			m = m[:k]
		}
	case 2: // extend
		m = append(m, r.Bytes(r.Range(1, 5))...)
	case 3: // change a byte in the header / length area
		if len(m) > 0 {
			i := r.Intn(imin(len(m), 12))
			m[i] = byte(r.Intn(256))
		}
	case 4: // off-by-one on a length byte
		if len(m) > 0 {
			i := r.Intn(imin(len(m), 12))
			if r.Bool() {
				m[i]++
			} else {
				m[i]--
			}
		}
	case 5: // change any byte
		if len(m) > 0 {
			m[r.Intn(len(m))] ^= byte(1 << uint(r.Intn(8)))
		}
	case 6: // drop one byte
		if len(m) > 0 {
			i := r.Intn(len(m))
			m = append(m[:i], m[i+1:]...)
		}
	case 7: // unchanged
	default: // maximal length fields
		if len(m) > 4 {
			i := r.Range(1, imin(len(m)-1, 10))
			m[i] = 0xff
		}
	}
	return m
}

// nameBytes: a protocol / host name of n bytes: lower case, mixed case, with dots (also leading, trailing, doubled),
// arbitrary bytes incl. 0x00, 0x2e, 0xff, or non-ASCII (UTF-8) text
func nameBytes(r *vh.Rand, n int) []byte {
	b := r.Bytes(n)
	switch r.Intn(6) {
	case 0: // any bytes
	case 1:
		for j := range b {
			b[j] = []byte{0, '.', 0xff, '-', '_', ' ', 0x80, 'a', '*', '/'}[int(b[j])%10]
		}
	case 2:
		for j := range b {
			b[j] = 'A' + b[j]%26
			if r.Bool() {
				b[j] |= 0x20
			}
		}
	case 3:
		u := []byte("\xc3\xa9\xe4\xb8\xad\xd0\xb6x.")
		for j := range b {
			b[j] = u[j%len(u)]
		}
	default:
		for j := range b {
			b[j] = 'a' + b[j]%26
		}
	}
	if n > 0 {
		switch r.Intn(8) {
		case 0:
			b[n-1] = '.' // rooted name
		case 1:
			b[0] = '.'
		case 2:
			b[n/2] = '.'
			if n/2+1 < n {
				b[n/2+1] = '.' // empty label
			}
		}
	}
	return b
}

func strs(r *vh.Rand, k int) []string {
	var s []string
	for i := 0; i < k; i++ {
		n := r.Range(1, 12) // marshal panics by design on ALPN/NPN names of 0 or > 255 bytes
		if r.Chance(1, 8) {
			n = []int{1, 2, 254, 255}[r.Intn(4)]
		}
		s = append(s, string(nameBytes(r, n)))
	}
	return s
}

// server names: ordinary host names, rooted names ("www.example.com."), empty labels, upper case, IP literals,
// non-ASCII and arbitrary bytes, lengths 1, 255, 256 and near the 16-bit limit
func genSNI(r *vh.Rand) []byte {
	switch r.Intn(12) {
	case 0:
		return []byte([]string{"www.example.com.", "localhost.", ".", "..", "a..b", "WWW.EXAMPLE.COM", "xn--bcher-kva.example",
			"192.0.2.1", "[2001:db8::1]", "*.example.com", "a", "example.com:443", "b\xc3\xbccher.example", " example.com", "ex\x00ample.com"}[r.Intn(15)])
	case 1:
		return nameBytes(r, []int{1, 2, 253, 254, 255, 256, 257}[r.Intn(7)])
	case 2:
		if r.Chance(1, 3) {
			return nameBytes(r, []int{65000, 65400}[r.Intn(2)]) // extensions still below 64 KiB only without other large fields
		}
		return nameBytes(r, r.Range(60, 300))
	case 3, 4:
		return nameBytes(r, r.Range(1, 40))
	default:
		return append(nameBytes(r, r.Range(1, 12)), []byte([]string{".example", ".example.", ".EXAMPLE.COM", ".com", "."}[r.Intn(5)])...)
	}
}

func flag(r *vh.Rand, num, den int) string {
	if r.Chance(num, den) {
		return "01"
	}
	return "00"
}

func flatStrs(r *vh.Rand, k, w int) []byte {
	var out []byte
	for _, s := range strs(r, k) {
		if w == 2 {
			out = append(out, byte(len(s)>>8))
		}
		out = append(out, byte(len(s)))
		out = append(out, s...)
	}
	return out
}

// number of entries of a uint16 list (curves, signature algorithms): empty, one, a few, many
func listLen(r *vh.Rand) int {
	switch r.Intn(8) {
	case 0:
		return 0
	case 1:
		return 1
	case 2:
		return []int{127, 128, 129, 255, 256}[r.Intn(5)]
	}
	return r.Range(2, 6)
}

func smallLen(r *vh.Rand) int {
	n := genLen(r)
	if n > 300 {
		n = n % 300
	}
	return n
}

// clientHello fields: vers:random:sessionId:suites:comp:npn:sni:ocsp:curves:points:ticketOK:ticket:sigalgs:reneg:alpn
func genCHL(r *vh.Rand) string {
	h := func(n int) string { return vh.Hex(r.Bytes(n)) }
	sid := []int{0, 1, 16, 31, 32, 32, 32}[r.Intn(7)]
	if r.Chance(1, 40) {
		sid = 33 // beyond the wire limit
	}
	rnd := 32
	if r.Chance(1, 40) {
		rnd = []int{0, 31, 33}[r.Intn(3)]
	}
	ns := r.Range(0, 12)
	if r.Chance(1, 10) {
		ns = []int{127, 128, 129}[r.Intn(3)]
	}
	suites := r.Bytes(2 * ns)
	if ns > 0 && r.Chance(1, 6) { // TLS_EMPTY_RENEGOTIATION_INFO_SCSV
		i := r.Intn(ns)
		suites[2*i], suites[2*i+1] = 0, 0xff
	}
	sni := ""
	if r.Chance(2, 3) {
		sni = string(genSNI(r))
	}
	tok := r.Chance(1, 2)
	ticket := 0
	if tok && r.Bool() {
		ticket = smallLen(r)
		if r.Chance(1, 12) {
			ticket = []int{255, 256, 1200, 16384}[r.Intn(4)]
		}
	}
	if !tok && r.Chance(1, 30) {
		ticket = 3 // ticket without ticketSupported: not marshalled (outside the wire limits)
	}
	alpn := []byte(nil)
	if r.Bool() {
		alpn = flatStrs(r, r.Range(1, 3), 1)
		if r.Chance(1, 10) {
			alpn = flatStrs(r, r.Range(8, 40), 1)
		}
	}
	return strings.Join([]string{h(2), h(rnd), h(sid), vh.Hex(suites), h([]int{0, 1, 1, 2, 255}[r.Intn(5)]), flag(r, 1, 2),
		vh.Hex([]byte(sni)), flag(r, 1, 2), h(2 * listLen(r)), h([]int{0, 0, 1, 2, 3, 254, 255}[r.Intn(7)]), map[bool]string{true: "01", false: "00"}[tok],
		h(ticket), h(2 * listLen(r)), flag(r, 1, 3), vh.Hex(alpn)}, ":")
}

// serverHello fields: vers:random:sessionId:suite:comp:npn:protos:ocsp:ticketOK:reneg:alpn
func genSHL(r *vh.Rand) string {
	h := func(n int) string { return vh.Hex(r.Bytes(n)) }
	sid := []int{0, 1, 16, 32, 32}[r.Intn(5)]
	if r.Chance(1, 40) {
		sid = 33
	}
	npn := r.Bool()
	var protos []byte
	if npn && r.Chance(2, 3) {
		protos = flatStrs(r, r.Range(1, 3), 1)
	}
	alpn := ""
	if r.Bool() {
		alpn = strs(r, 1)[0]
	}
	return strings.Join([]string{h(2), h(32), h(sid), h(2), h(1), map[bool]string{true: "01", false: "00"}[npn], vh.Hex(protos),
		flag(r, 1, 2), flag(r, 1, 2), flag(r, 1, 2), vh.Hex([]byte(alpn))}, ":")
}

// certificateRequest fields: types:sigalgs:cas(2-byte length prefixed)
func genCR(r *vh.Rand, has bool) string {
	h := func(n int) string { return vh.Hex(r.Bytes(n)) }
	nt := []int{1, 1, 2, 3, 255, 0}[r.Intn(6)]
	sig := 0
	if has {
		sig = 2 * listLen(r)
	}
	var cas []byte
	for i := r.Intn(4); i > 0; i-- {
		n := smallLen(r)
		cas = append(cas, byte(n>>8), byte(n))
		cas = append(cas, r.Bytes(n)...)
	}
	return strings.Join([]string{h(nt), h(sig), vh.Hex(cas)}, ":")
}

func genEx(r *vh.Rand, kind string) []byte {
	var certs [][]byte
	for i := r.Intn(4); i > 0; i-- {
		certs = append(certs, r.Bytes(genLen(r)%400))
	}
	return bfe_tls.VerifC45SessionState(uint16(0x0300+r.Intn(4)), uint16(r.Intn(65536)), r.Bytes([]int{0, 48, 48, 255, 256}[r.Intn(5)]), certs)
}

// boundaries lists the offsets at which a length prefix or a field of a hello message starts or ends
// (fixed part, then every extension header and the first bytes of its body): truncating exactly there
// (or one byte before/after) is what a missing bounds check trips over.
func boundaries(kind string, m []byte) []int {
	b := []int{0, 1, 4, 5, 6, 38, 39, 41, 42, 43}
	if (kind != "chl" && kind != "shl") || len(m) < 39 {
		for i := 0; i < len(m) && i < 12; i++ {
			b = append(b, i)
		}
		return b
	}
	o := 39 + int(m[38])
	b = append(b, o-1, o, o+1, o+2)
	for i := 40; i < o; i += 3 { // inside the session id: the message is long enough for the len < 42 test only
		b = append(b, i)
	}
	if kind == "chl" {
		if o+2 > len(m) {
			return b
		}
		o += 2 + (int(m[o])<<8 | int(m[o+1]))
		b = append(b, o-1, o, o+1)
		if o+1 > len(m) {
			return b
		}
		o += 1 + int(m[o])
	} else {
		o += 3
	}
	b = append(b, o-1, o, o+1, o+2)
	o += 2
	for o+4 <= len(m) {
		l := int(m[o+2])<<8 | int(m[o+3])
		b = append(b, o, o+1, o+2, o+3, o+4, o+5, o+6, o+7, o+8, o+9)
		o += 4 + l
		b = append(b, o-1)
	}
	b = append(b, o, len(m)-1)
	return b
}

// splitMsg cuts m into records: at structural boundaries, inside the 4-byte header, one byte at a time, with empty records
func splitMsg(r *vh.Rand, kind string, m []byte) []string {
	var cuts []int
	switch r.Intn(6) {
	case 0: // a single record
	case 1: // inside the message header
		cuts = []int{r.Range(1, 3)}
	case 2: // every byte of the first bytes its own record
		for i := 1; i < len(m) && i < 8; i++ {
			cuts = append(cuts, i)
		}
	case 3: // at structural boundaries
		bs := boundaries(kind, m)
		for i := 0; i < 3; i++ {
			cuts = append(cuts, bs[r.Intn(len(bs))])
		}
	default:
		for i := r.Intn(5); i > 0 && len(m) > 0; i-- {
			cuts = append(cuts, r.Intn(len(m)+1))
		}
	}
	// sort, dedupe
	for i := range cuts {
		for j := i + 1; j < len(cuts); j++ {
			if cuts[j] < cuts[i] {
				cuts[i], cuts[j] = cuts[j], cuts[i]
			}
		}
	}
	var out []string
	prev := 0
	for _, c := range cuts {
		if c < prev || c > len(m) {
			continue
		}
		out = append(out, vh.Hex(m[prev:c])) // may be an empty record
		prev = c
	}
	out = append(out, vh.Hex(m[prev:]))
	if r.Chance(1, 6) {
		i := r.Intn(len(out) + 1)
		out = append(out[:i], append([]string{"-"}, out[i:]...)...)
	}
	return out
}

func genRH(r *vh.Rand) string {
	k := kinds[r.Intn(len(kinds))]
	fl, _ := parseFields(k, genFields(r, k))
	m, _ := bfe_tls.VerifC45Marshal(k, fl)
	tls12 := strings.HasSuffix(k, "1")
	if k != "cr0" && k != "cr1" && k != "cv0" && k != "cv1" {
		tls12 = r.Bool()
	} else if r.Chance(1, 8) {
		tls12 = !tls12 // parsed under the other version's layout
	}
	switch r.Intn(8) {
	case 0: // the message ends before its announced length (transport EOF)
		if len(m) > 4 {
			m = m[:r.Range(0, len(m)-1)]
		}
	case 1: // more bytes follow (the next message)
		m = append(append([]byte(nil), m...), r.Bytes(r.Range(1, 9))...)
	case 2:
		m = mutateK(r, k, m)
	case 3: // the 3-byte length disagrees
		if len(m) >= 4 {
			m = append([]byte(nil), m...)
			m[r.Range(1, 3)] ^= byte(1 << uint(r.Intn(8)))
		}
	case 4: // unknown / other message type
		if len(m) > 0 {
			m = append([]byte(nil), m...)
			m[0] = []byte{0, 3, 5, 21, 23, 24, 255, 1, 2, 11, 13, 15, 20}[r.Intn(13)]
		}
	}
	if r.Chance(1, 3) { // one or two more messages behind it (kept by the reader, rendered only after all were read)
		for i := r.Range(1, 2); i > 0; i-- {
			k2 := kinds[r.Intn(len(kinds))]
			if strings.HasPrefix(k2, "cr") || strings.HasPrefix(k2, "cv") {
				k2 = k2[:2] + map[bool]string{true: "1", false: "0"}[tls12]
			}
			fl2, _ := parseFields(k2, genFields(r, k2))
			m2, _ := bfe_tls.VerifC45Marshal(k2, fl2)
			if len(m2) < 3000 {
				m = append(append([]byte(nil), m...), m2...)
			}
		}
	}
	if len(m) > 40000 {
		m = m[:40000]
	}
	flags := map[bool]string{true: "1", false: "0"}
	return "rh " + flags[r.Chance(2, 3)] + flags[tls12] + " " + strings.Join(splitMsg(r, k, m), ",")
}

func gen(r *vh.Rand) string {
	if r.Chance(1, 5) {
		return genRH(r)
	}
	switch x := r.Intn(20); {
	case x < 8:
		k := kinds[r.Intn(len(kinds))]
		return "rt " + k + " " + genFields(r, k)
	case x < 15:
		k := kinds[r.Intn(len(kinds))]
		if r.Chance(1, 10) {
			return "um " + k + " " + vh.Hex(r.Bytes(r.Intn(24)))
		}
		fl, _ := parseFields(k, genFields(r, k))
		m, _ := bfe_tls.VerifC45Marshal(k, fl)
		if len(m) > 3000 { // keep mutation cases small
			return "um " + k + " " + vh.Hex(mutate(r, m[:r.Range(4, 64)]))
		}
		m = mutateK(r, k, m)
		if r.Chance(1, 5) {
			m = mutate(r, m)
		}
		return "um " + k + " " + vh.Hex(m)
	default:
		k := exKinds[r.Intn(len(exKinds))]
		if r.Chance(1, 12) {
			return "ex " + k + " " + vh.Hex(r.Bytes(r.Intn(80)))
		}
		m := genEx(r, k)
		n := r.Intn(3)
		for i := 0; i < n; i++ {
			m = mutate(r, m)
		}
		return "ex " + k + " " + vh.Hex(m)
	}
}

func main() {
	vh.Pre = func(emit func(string), thorough bool) {
		// every prefix of one well-formed message per kind (all truncation points), and the exact boundaries
		r := vh.NewRand(45)
		for _, k := range []string{"fin", "ske", "cke", "shd", "cst", "npn", "nst", "cv0", "cv1", "crt", "cr0", "cr1"} {
			fl, _ := parseFields(k, genFields(r, k))
			m, _ := bfe_tls.VerifC45Marshal(k, fl)
			if len(m) > 80 {
				m = m[:80]
			}
			for i := 0; i <= len(m); i++ {
				emit("um " + k + " " + vh.Hex(m[:i]))
				if i >= 4 && i < len(m) {
					emit("um " + k + " " + vh.Hex(fixLen3(m[:i]))) // cut, outer length repaired
				}
			}
		}
		// hello messages with a 32-byte session id and every extension: every prefix
		full := map[string]string{
			"chl": "0303:" + vh.Hex(make([]byte, 32)) + ":" + vh.Hex(r.Bytes(32)) + ":c02fc02b00ff:0100:01:6578616d706c652e636f6d:01:0017001d:00:01:aabbcc:04010503:01:026832",
			"shl": "0303:" + vh.Hex(make([]byte, 32)) + ":" + vh.Hex(r.Bytes(32)) + ":c02f:00:01:0268320468747470:01:01:01:6832",
		}
		for _, k := range []string{"chl", "shl"} {
			fl, _ := parseFields(k, full[k])
			m, _ := bfe_tls.VerifC45Marshal(k, fl)
			emit("rt " + k + " " + full[k])
			for i := 0; i <= len(m); i++ { // the real readHandshake with the message cut into two records at every offset
				emit("rh 11 " + vh.Hex(m[:i]) + "," + vh.Hex(m[i:]))
			}
			for i := 0; i <= len(m); i++ {
				emit("um " + k + " " + vh.Hex(m[:i]))
				if t := truncFix(k, m, i); t != nil {
					emit("um " + k + " " + vh.Hex(t))
				}
				if i < len(m) && i >= 38 { // every byte from the session id length on: +1 and 0xff
					for _, v := range []byte{m[i] + 1, 0xff} {
						t := append([]byte(nil), m...)
						t[i] = v
						emit("um " + k + " " + vh.Hex(t))
					}
				}
			}
			for j := 0; j < 2; j++ {
				fl, _ := parseFields(k, genFields(r, k))
				m, _ := bfe_tls.VerifC45Marshal(k, fl)
				for i := 0; i <= len(m) && i < 400; i++ {
					emit("um " + k + " " + vh.Hex(m[:i]))
				}
			}
		}
		for _, k := range exKinds {
			m := genEx(r, k)
			for i := 0; i <= len(m) && i < 200; i++ {
				emit("ex " + k + " " + vh.Hex(m[:i]))
			}
		}
		for _, n := range []int{0, 1, 255, 256, 65535, 65536} {
			z := vh.Hex(make([]byte, n))
			for _, k := range []string{"fin", "ske", "cke", "nst", "cv0", "npn"} {
				emit("rt " + k + " " + z)
			}
			emit("rt cst 01:" + z)
			emit("rt cv1 04:01:" + z)
			emit("rt crt " + vh.Hex(make([]byte, n+1)) + ",01")
		}
		// unusual-but-legal names in every name-carrying field
		for _, n := range []string{"www.example.com.", "localhost.", ".", "a..b", "WWW.Example.COM", "b\xc3\xbccher.example", "ex\x00ample", "*", " "} {
			hn := vh.Hex([]byte(n))
			al := vh.Hex(append([]byte{byte(len(n))}, n...))
			rnd := vh.Hex(make([]byte, 32))
			emit("rt chl 0303:" + rnd + ":-:c02f:00:00:" + hn + ":00:-:-:00:-:-:00:-")
			emit("rt chl 0303:" + rnd + ":-:c02f:00:00:" + hn + ":01:0017:00:01:-:0401:00:" + al)
			emit("rt shl 0303:" + rnd + ":-:c02f:00:01:" + al + ":00:00:00:" + hn)
			emit("rt npn " + hn)
		}
		for _, n := range []int{1, 255, 256, 65000} {
			emit("rt chl 0303:" + vh.Hex(make([]byte, 32)) + ":-:c02f:00:00:" + vh.Hex(nameBytes(r, n)) + ":00:-:-:00:-:-:00:-")
		}
		emit("rt crt 01,-")
		emit("rt crt -,01")
		emit("rt crt -")
	}
	vh.Main(gen, exec)
}

func imin(a, b int) int {
	if a < b {
		return a
	}
	return b
}
