// C45: TLS handshake messages round-trip and parse safely.
//
//	rt <kind> <fields>   build the message from its fields, REAL marshal, REAL unmarshal of the result
//	um <kind> <hex>      REAL unmarshal of arbitrary bytes (mutations of marshalled messages, random bytes)
//	ex <kind> <hex>      kinds without a Lean model (clientHello, serverHello, certificateRequest, sessionState):
//	                     real unmarshal under recover(); accepted values must survive marshal∘unmarshal unchanged
//
// all through the verif hooks of bfe_tls (zz_verif_c45.go); a panic is reported by vh as PANIC:<msg>.
package main

import (
	"strings"

	"bfeverif/harness/internal/vh"
	"github.com/bfenetworks/bfe/bfe_tls"
)

var kinds = []string{"fin", "ske", "cke", "shd", "cst", "npn", "nst", "cv0", "cv1", "crt"}
var exKinds = []string{"chl", "shl", "cr0", "cr1", "sst"}

func parseFields(kind, fs string) ([][]byte, bool) {
	if kind == "crt" {
		if fs == "none" {
			return nil, true
		}
		var out [][]byte
		for _, c := range strings.Split(fs, ",") {
			b, ok := vh.UnHex(c)
			if !ok {
				return nil, false
			}
			out = append(out, append([]byte{}, b...))
		}
		return out, true
	}
	var out [][]byte
	for _, c := range strings.Split(fs, ":") {
		b, ok := vh.UnHex(c)
		if !ok {
			return nil, false
		}
		out = append(out, b)
	}
	return out, true
}

func exec(op string) string {
	f := strings.Split(op, " ")
	if len(f) != 3 {
		return "bad-op"
	}
	switch f[0] {
	case "um":
		d, ok := vh.UnHex(f[2])
		if !ok {
			return "bad-op"
		}
		return bfe_tls.VerifC45Unmarshal(f[1], d)
	case "rt":
		fl, ok := parseFields(f[1], f[2])
		if !ok {
			return "bad-op"
		}
		m, ok := bfe_tls.VerifC45Marshal(f[1], fl)
		if !ok {
			return "bad-op"
		}
		return "m=" + vh.Hex(m) + " u=" + bfe_tls.VerifC45Unmarshal(f[1], m)
	case "ex":
		d, ok := vh.UnHex(f[2])
		if !ok {
			return "bad-op"
		}
		return bfe_tls.VerifC45Reparse(f[1], d)
	}
	return "bad-op"
}

// size biased to the 1-, 2- and 3-byte length boundaries
func genLen(r *vh.Rand) int {
	switch r.Intn(16) {
	case 0:
		return 0
	case 1:
		return 1
	case 2:
		return []int{253, 254, 255, 256, 257, 258}[r.Intn(6)]
	case 3:
		if r.Chance(1, 3) {
			return []int{65525, 65529, 65531, 65533, 65534, 65535, 65536, 65537, 65540}[r.Intn(9)]
		}
		return r.Range(200, 300)
	case 4:
		return []int{29, 30, 31, 32, 33, 61, 62, 63}[r.Intn(8)] // nextProto padding boundaries
	default:
		return r.Range(2, 40)
	}
}

func genFields(r *vh.Rand, kind string) string {
	h := func(n int) string { return vh.Hex(r.Bytes(n)) }
	switch kind {
	case "shd":
		return "-"
	case "cst":
		t := byte(1)
		if r.Chance(1, 4) {
			t = byte(r.Intn(256))
		}
		n := genLen(r)
		if t != 1 && !r.Chance(1, 4) {
			n = 0
		}
		return vh.Hex([]byte{t}) + ":" + h(n)
	case "cv1":
		return h(1) + ":" + h(1) + ":" + h(genLen(r))
	case "crt":
		k := r.Intn(5)
		if k == 0 {
			return "none"
		}
		var cs []string
		for i := 0; i < k; i++ {
			n := genLen(r)
			if n == 0 && !r.Chance(1, 3) {
				n = 1
			}
			if n > 300 && i > 0 {
				n = r.Range(1, 20)
			}
			cs = append(cs, h(n))
		}
		return strings.Join(cs, ",")
	}
	return h(genLen(r))
}

func mutate(r *vh.Rand, m []byte) []byte {
	m = append([]byte(nil), m...)
	switch r.Intn(9) {
	case 0: // truncate
		if len(m) > 0 {
			m = m[:r.Intn(len(m))]
		}
	case 1: // truncate near the front
		k := r.Intn(12)
		if k < len(m) {
			m = m[:k]
		}
	case 2: // extend
		m = append(m, r.Bytes(r.Range(1, 5))...)
	case 3: // change a byte in the header / length area
		if len(m) > 0 {
			i := r.Intn(imin(len(m), 12))
			m[i] = byte(r.Intn(256))
		}
	case 4: // off-by-one on a length byte
		if len(m) > 0 {
			i := r.Intn(imin(len(m), 12))
			if r.Bool() {
				m[i]++
			} else {
				m[i]--
			}
		}
	case 5: // change any byte
		if len(m) > 0 {
			m[r.Intn(len(m))] ^= byte(1 << uint(r.Intn(8)))
		}
	case 6: // drop one byte
		if len(m) > 0 {
			i := r.Intn(len(m))
			m = append(m[:i], m[i+1:]...)
		}
	case 7: // unchanged
	default: // maximal length fields
		if len(m) > 4 {
			i := r.Range(1, imin(len(m)-1, 10))
			m[i] = 0xff
		}
	}
	return m
}

func strs(r *vh.Rand, k int) []string {
	var s []string
	for i := 0; i < k; i++ {
		n := r.Range(1, 12) // marshal panics by design on ALPN/NPN names of 0 or > 255 bytes
		if r.Chance(1, 10) {
			n = []int{1, 254, 255}[r.Intn(3)]
		}
		b := r.Bytes(n)
		for j := range b {
			b[j] = 'a' + b[j]%26
		}
		s = append(s, string(b))
	}
	return s
}

func genEx(r *vh.Rand, kind string) []byte {
	u16s := func(k int) []uint16 {
		var s []uint16
		for i := 0; i < k; i++ {
			s = append(s, uint16(r.Intn(65536)))
		}
		return s
	}
	sid := r.Bytes([]int{0, 16, 32, 32, 33}[r.Intn(5)])
	switch kind {
	case "chl":
		sni := ""
		if r.Bool() {
			sni = strs(r, 1)[0] + ".example"
		}
		var ticket []byte
		if r.Bool() {
			ticket = r.Bytes(genLen(r) % 400)
		}
		return bfe_tls.VerifC45ClientHello(uint16(0x0300+r.Intn(5)), r.Bytes(32), sid, u16s(r.Range(0, 20)), r.Bytes(r.Range(0, 3)),
			r.Bool(), sni, r.Bool(), u16s(r.Intn(5)), r.Bytes(r.Intn(4)), r.Bool(), ticket, r.Bytes(2*r.Intn(6)), r.Bool(), strs(r, r.Intn(4)))
	case "shl":
		alpn := ""
		if r.Bool() {
			alpn = strs(r, 1)[0]
		}
		return bfe_tls.VerifC45ServerHello(uint16(0x0300+r.Intn(5)), r.Bytes(32), sid, uint16(r.Intn(65536)), byte(r.Intn(2)),
			r.Bool(), strs(r, r.Intn(4)), r.Bool(), r.Bool(), r.Bool(), alpn)
	case "cr0", "cr1":
		var cas [][]byte
		for i := r.Intn(4); i > 0; i-- {
			cas = append(cas, r.Bytes(genLen(r)%300))
		}
		return bfe_tls.VerifC45CertificateRequest(kind == "cr1", r.Bytes(r.Range(0, 5)), r.Bytes(2*r.Intn(6)), cas)
	default:
		var certs [][]byte
		for i := r.Intn(4); i > 0; i-- {
			certs = append(certs, r.Bytes(genLen(r)%400))
		}
		return bfe_tls.VerifC45SessionState(uint16(0x0300+r.Intn(4)), uint16(r.Intn(65536)), r.Bytes([]int{0, 48, 48, 255, 256}[r.Intn(5)]), certs)
	}
}

func gen(r *vh.Rand) string {
	switch x := r.Intn(20); {
	case x < 8:
		k := kinds[r.Intn(len(kinds))]
		return "rt " + k + " " + genFields(r, k)
	case x < 15:
		k := kinds[r.Intn(len(kinds))]
		if r.Chance(1, 10) {
			return "um " + k + " " + vh.Hex(r.Bytes(r.Intn(24)))
		}
		fl, _ := parseFields(k, genFields(r, k))
		m, _ := bfe_tls.VerifC45Marshal(k, fl)
		if len(m) > 3000 { // keep mutation cases small
			return "um " + k + " " + vh.Hex(mutate(r, m[:r.Range(4, 64)]))
		}
		return "um " + k + " " + vh.Hex(mutate(r, m))
	default:
		k := exKinds[r.Intn(len(exKinds))]
		if r.Chance(1, 12) {
			return "ex " + k + " " + vh.Hex(r.Bytes(r.Intn(80)))
		}
		m := genEx(r, k)
		n := r.Intn(3)
		for i := 0; i < n; i++ {
			m = mutate(r, m)
		}
		return "ex " + k + " " + vh.Hex(m)
	}
}

func main() {
	vh.Pre = func(emit func(string), thorough bool) {
		// every prefix of one well-formed message per kind (all truncation points), and the exact boundaries
		r := vh.NewRand(45)
		for _, k := range kinds {
			fl, _ := parseFields(k, genFields(r, k))
			m, _ := bfe_tls.VerifC45Marshal(k, fl)
			if len(m) > 80 {
				m = m[:80]
			}
			for i := 0; i <= len(m); i++ {
				emit("um " + k + " " + vh.Hex(m[:i]))
			}
		}
		for _, k := range exKinds {
			m := genEx(r, k)
			for i := 0; i <= len(m) && i < 200; i++ {
				emit("ex " + k + " " + vh.Hex(m[:i]))
			}
		}
		for _, n := range []int{0, 1, 255, 256, 65535, 65536} {
			z := vh.Hex(make([]byte, n))
			for _, k := range []string{"fin", "ske", "cke", "nst", "cv0", "npn"} {
				emit("rt " + k + " " + z)
			}
			emit("rt cst 01:" + z)
			emit("rt cv1 04:01:" + z)
			emit("rt crt " + vh.Hex(make([]byte, n+1)) + ",01")
		}
		emit("rt crt 01,-")
		emit("rt crt -,01")
		emit("rt crt -")
	}
	vh.Main(gen, exec)
}

func imin(a, b int) int {
	if a < b {
		return a
	}
	return b
}
