// Real path for C21: HTTP/2 request bodies.  The harness is an h2 client on an in-memory connection to the
// real bfe_http2 server (hooks of C33: VerifC33Serve); each stream's DATA goes through processData ->
// Pipe.Write, END_STREAM -> CloseWithError(io.EOF), the handler's Body.Read -> Pipe.Read, and the end of the
// stream -> Discard + Release into the server's real fixBufferPool, from which the next stream's pipe is made.
//
//	P;st:<data hex>:<read sizes n1.n2...>;st:...      one token per stream, streams run one after the other
//	result per stream: the handler's Read results joined by ",":  <hex> | err<code>   (stops at the first error)
package main

import (
	"io"
	"net"
	"strconv"
	"strings"
	"sync"
	"time"

	"bfeverif/harness/internal/h2c33"
	"bfeverif/harness/internal/vh"
	http "github.com/bfenetworks/bfe/bfe_http"
	"github.com/bfenetworks/bfe/bfe_http2"
)

type h2plan struct {
	sizes []int
	goCh  chan struct{}
	res   chan string
}

type h2handler struct {
	mu    sync.Mutex
	plans map[uint32]*h2plan
	quit  chan struct{}
}

func (h *h2handler) ServeHTTP(w http.ResponseWriter, r *http.Request) {
	id, _, _ := bfe_http2.VerifC33Body(r.Body)
	h.mu.Lock()
	pl := h.plans[id]
	h.mu.Unlock()
	if pl == nil {
		return
	}
	select {
	case <-pl.goCh:
	case <-h.quit:
		return
	}
	var out []string
	for _, n := range pl.sizes {
		buf := make([]byte, n)
		k, err := r.Body.Read(buf)
		if k > 0 || err == nil {
			out = append(out, vh.Hex(buf[:k]))
		}
		if err != nil {
			if err == io.EOF {
				out = append(out, "err0")
			} else {
				out = append(out, "errother")
			}
			break
		}
	}
	pl.res <- strings.Join(out, ",")
}

func execH2Path(op string) string {
	toks := strings.Split(op, ";")
	hs := &h2handler{plans: map[uint32]*h2plan{}, quit: make(chan struct{})}
	defer close(hs.quit)
	cl := h2c33.Start(nil, nil, func(c net.Conn) *bfe_http2.VerifC33Conn {
		return bfe_http2.VerifC33Serve(c, hs, &bfe_http2.Server{})
	})
	defer cl.Close()
	if !cl.Send(h2c33.Preface()) || !cl.Sync() {
		return "no-preface"
	}
	if _, ok := cl.Quiesce(nil); !ok {
		return "no-quiesce"
	}
	var res []string
	for i, t := range toks[1:] {
		f := strings.Split(t, ":")
		if len(f) != 3 || f[0] != "st" {
			return "bad-op"
		}
		data, ok := vh.UnHex(f[1])
		if !ok || len(data) > 8000 {
			return "bad-op"
		}
		var sizes []int
		for _, x := range strings.Split(f[2], ".") {
			n, err := strconv.Atoi(x)
			if err != nil || n < 1 || n > 1<<16 {
				return "bad-op"
			}
			sizes = append(sizes, n)
		}
		id := uint32(2*i + 1)
		pl := &h2plan{sizes: sizes, goCh: make(chan struct{}), res: make(chan string, 1)}
		hs.mu.Lock()
		hs.plans[id] = pl
		hs.mu.Unlock()
		if !cl.Send(cl.Headers(id, -1, false)) || !cl.Sync() {
			return "conn-lost"
		}
		// DATA in up to three frames, END_STREAM on the last one
		rest := append([]byte(nil), data...)
		cuts := []int{len(rest) / 3, len(rest) / 2, len(rest)}
		prev := 0
		for j, c := range cuts {
			fl := byte(0)
			if j == len(cuts)-1 {
				fl = 1
			}
			if !cl.Send(h2c33.Frame(h2c33.TData, fl, id, rest[prev:c])) {
				return "conn-lost"
			}
			prev = c
		}
		if !cl.Sync() {
			return "conn-lost"
		}
		close(pl.goCh)
		select {
		case r := <-pl.res:
			res = append(res, r)
		case <-time.After(deadline(30 * time.Second)):
			hangs++
			return "HANG"
		}
		// the handler returns, the response ends the stream, its pipe is discarded and released to the pool
		if _, ok := cl.Quiesce(func(s bfe_http2.VerifC33Snap) bool { return len(s.Streams) == 0 }); !ok {
			return "no-quiesce"
		}
	}
	return strings.Join(res, ";")
}

func genH2Path(r *vh.Rand) string {
	var sb strings.Builder
	sb.WriteString("P")
	next := byte(r.Intn(256))
	for i, n := 0, r.Range(2, 5); i < n; i++ {
		l := []int{0, 1, 7, r.Range(0, 40), r.Range(0, 400), r.Range(0, 3000)}[r.Intn(6)]
		d := make([]byte, l)
		for j := range d {
			d[j] = next
			next++
		}
		// read plans: everything, nothing much (leaving most of the body unread), or pieces
		var sizes []string
		switch r.Intn(4) {
		case 0:
			sizes = []string{strconv.Itoa(l + 5), "3"}
		case 1:
			sizes = []string{strconv.Itoa(r.Range(1, 4))}
		default:
			for k, m := 0, r.Range(1, 6); k < m; k++ {
				sizes = append(sizes, strconv.Itoa(r.Range(1, l/2+2)))
			}
		}
		sb.WriteString(";st:" + vh.Hex(d) + ":" + strings.Join(sizes, "."))
	}
	return sb.String()
}
