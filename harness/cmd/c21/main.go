// C21: body pipes — drives the real bfe_util/pipe.Pipe (over a real FixedBuffer handed in through
// NewPipeFromBufferPool, so no hook file is needed) with scripted schedules.
//
// The reader runs in its own goroutine.  After starting it (token r:<n>) or after letting it continue
// (token j) the harness waits until that goroutine has either returned from Read or is parked in
// sync.Cond.Wait (observed through the goroutine header "[sync.Cond.Wait" of runtime.Stack; Signal makes
// the goroutine runnable synchronously, so this is a state observation, not a timing guess).  A reader
// that neither returns nor parks within the deadline is reported as HANG.
package main

import (
	"bytes"
	"errors"
	"fmt"
	"io"
	"runtime"
	"strconv"
	"strings"
	"sync"
	"time"

	"bfeverif/harness/internal/vh"
	"github.com/bfenetworks/bfe/bfe_util/pipe"
)

// ---- error enumeration: code 0 is io.EOF, other codes are distinct opaque errors
var errTab = map[int]error{0: io.EOF}

func errOf(code int) error {
	if e, ok := errTab[code]; ok {
		return e
	}
	e := errors.New("verif-err-" + strconv.Itoa(code))
	errTab[code] = e
	return e
}

func codeOf(e error) string {
	if e == nil {
		return "nil"
	}
	for c, x := range errTab {
		if x == e {
			return strconv.Itoa(c)
		}
	}
	switch e.Error() {
	case "write on closed buffer":
		return "closed"
	case "write on full FixedBuffer":
		return "full"
	case "read from empty FixedBuffer":
		return "empty"
	}
	return "other"
}

type rdResult struct {
	data []byte
	err  error
	fn   int
}

// parkedReaders counts the goroutines parked in sync.Cond.Wait below (*Pipe).Read.
func parkedReaders(buf []byte) int {
	cnt := 0
	n := runtime.Stack(buf, true)
	s := buf[:n]
	for len(s) > 0 {
		end := bytes.Index(s, []byte("\n\n"))
		var g []byte
		if end < 0 {
			g, s = s, nil
		} else {
			g, s = s[:end], s[end+2:]
		}
		nl := bytes.IndexByte(g, '\n')
		if nl < 0 {
			continue
		}
		if bytes.Contains(g[:nl], []byte("[sync.Cond.Wait")) && bytes.Contains(g, []byte("pipe.(*Pipe).Read")) {
			cnt++
		}
	}
	return cnt
}

// outstanding is the number of Reads outstanding over all pipes of the running case: a reader has
// settled when it returned or when that many readers are parked.
var outstanding int

// baseline: readers leaked (still parked) by earlier cases that ended in HANG; only ever non-zero after a hang
var baseline int

func startCase() {
	outstanding = 0
	baseline = 0
	if hangs > 0 {
		baseline = parkedReaders(stackBuf)
	}
}

var stackBuf = make([]byte, 4<<20)

// hangs counts deadline expiries in this process.  A correct Pipe never produces one; once a broken one
// has produced one (after the full 30 s watchdog), the remaining cases use a short deadline so that the run still finishes and
// reports them (the verdict of such a case is HANG either way).
var hangs int

func deadline(d time.Duration) time.Duration {
	if hangs >= 1 {
		return 200 * time.Millisecond
	}
	return d
}

type runner struct {
	p        *pipe.Pipe
	fb       *pipe.FixedBuffer
	pool     *sync.Pool
	pending  chan rdResult // non-nil while a Read is outstanding
	released bool
	fnCount  int
	fnMu     sync.Mutex
}

// settle waits until the outstanding reader returned (result, true) or is parked (_, false).
func (r *runner) settle(tag string) string {
	limit := time.Now().Add(deadline(30 * time.Second))
	for spins := 0; ; spins++ {
		select {
		case res := <-r.pending:
			r.pending = nil
			outstanding--
			if res.err != nil {
				s := tag + "=err" + codeOf(res.err)
				if res.fn > 0 {
					s += "+fn"
				}
				return s
			}
			return tag + "=" + vh.Hex(res.data)
		default:
		}
		if parkedReaders(stackBuf)-baseline >= outstanding {
			// parked; make sure it did not complete in between
			select {
			case res := <-r.pending:
				r.pending = nil
				outstanding--
				if res.err != nil {
					s := tag + "=err" + codeOf(res.err)
					if res.fn > 0 {
						s += "+fn"
					}
					return s
				}
				return tag + "=" + vh.Hex(res.data)
			default:
			}
			return tag + "=blocked"
		}
		if time.Now().After(limit) {
			hangs++
			return tag + "=HANG"
		}
		if spins < 50 {
			runtime.Gosched()
		} else {
			time.Sleep(50 * time.Microsecond)
		}
	}
}

// auto: Write/Close*/Break* signal the condition variable; if a reader is outstanding it is made
// runnable by that Signal, so let it run until it returns or parks again before the next scripted step
// (this keeps every scripted schedule deterministic).  Result is appended as ">…".
func (r *runner) auto() string {
	if r.pending == nil {
		return ""
	}
	return ">" + r.settle("")[1:]
}

func (r *runner) cleanup() {
	if r.pending == nil {
		return
	}
	// a break must release a parked reader; settle() tells (without waiting for a deadline) whether the reader
	// returned or parked again
	r.p.BreakWithError(errOf(9999))
	if res := r.settle("x"); r.pending != nil {
		_ = res
		hangs++
		// try harder so that the goroutine does not leak into the following cases
		r.p.CloseWithError(errOf(9998))
		r.p.Write(nil)
		if r.pending != nil {
			r.settle("x")
		}
		if r.pending != nil {
			r.pending = nil
			outstanding--
		}
	}
}

// execStress: real concurrency, schedule chosen by the Go scheduler.  The verdict does not depend on
// timing: every fair schedule must deliver exactly data, then the close error.
func execStress(op string) string {
	f := strings.Split(op, ";")
	if len(f) != 6 {
		return "bad-op"
	}
	get := func(s, k string) (string, bool) {
		if strings.HasPrefix(s, k+"=") {
			return s[len(k)+1:], true
		}
		return "", false
	}
	capS, ok1 := get(f[1], "cap")
	dataS, ok2 := get(f[2], "data")
	wcS, ok3 := get(f[3], "wc")
	rcS, ok4 := get(f[4], "rc")
	eS, ok5 := get(f[5], "e")
	if !(ok1 && ok2 && ok3 && ok4 && ok5) {
		return "bad-op"
	}
	capN, e1 := strconv.Atoi(capS)
	code, e2 := strconv.Atoi(eS)
	data, okd := vh.UnHex(dataS)
	if e1 != nil || e2 != nil || !okd || capN < 1 || capN > 1<<16 {
		return "bad-op"
	}
	sizes := func(s string) ([]int, bool) {
		var out []int
		for _, x := range strings.Split(s, ".") {
			n, err := strconv.Atoi(x)
			if err != nil || n < 1 || n > 1<<16 {
				return nil, false
			}
			out = append(out, n)
		}
		return out, len(out) > 0
	}
	wc, okw := sizes(wcS)
	rc, okr := sizes(rcS)
	if !okw || !okr {
		return "bad-op"
	}
	p := pipe.NewPipeWithSize(uint32(capN))
	stop := make(chan struct{})
	wdone := make(chan struct{})
	go func() {
		defer close(wdone)
		rest := data
		for i := 0; len(rest) > 0; i++ {
			n := wc[i%len(wc)]
			if n > len(rest) {
				n = len(rest)
			}
			chunk := rest[:n]
			rest = rest[n:]
			for len(chunk) > 0 {
				k, _ := p.Write(chunk)
				chunk = chunk[k:]
				if len(chunk) > 0 {
					select {
					case <-stop:
						return
					default:
					}
					runtime.Gosched()
				}
			}
		}
		p.CloseWithError(errOf(code))
	}()
	type rr struct {
		got []byte
		err error
	}
	rdone := make(chan rr, 1)
	go func() {
		var got []byte
		buf := make([]byte, 1<<16)
		for i := 0; ; i++ {
			k, err := p.Read(buf[:rc[i%len(rc)]])
			got = append(got, buf[:k]...)
			if err != nil {
				rdone <- rr{got, err}
				return
			}
			if len(got) > len(data)+64 {
				rdone <- rr{got, errors.New("runaway")}
				return
			}
		}
	}()
	select {
	case r := <-rdone:
		<-wdone
		return vh.Hex(r.got) + ";err" + codeOf(r.err)
	case <-time.After(deadline(30 * time.Second)):
		hangs++
		close(stop)
		p.BreakWithError(errOf(9999))
		return "HANG"
	}
}

// execStress2: two writer goroutines (bytes of A have the top bit clear, bytes of B have it set) and one
// reader, all really concurrent.  Whatever the schedule: the reader must get every byte exactly once, the
// bytes of each writer in that writer's order, then the close error.  The result is printed per writer, so
// it is schedule independent.
func execStress2(op string) string {
	f := strings.Split(op, ";")
	if len(f) != 7 {
		return "bad-op"
	}
	get := func(s, k string) (string, bool) {
		if strings.HasPrefix(s, k+"=") {
			return s[len(k)+1:], true
		}
		return "", false
	}
	capS, ok1 := get(f[1], "cap")
	aS, ok2 := get(f[2], "a")
	bS, ok3 := get(f[3], "b")
	wcS, ok4 := get(f[4], "wc")
	rcS, ok5 := get(f[5], "rc")
	eS, ok6 := get(f[6], "e")
	if !(ok1 && ok2 && ok3 && ok4 && ok5 && ok6) {
		return "bad-op"
	}
	capN, e1 := strconv.Atoi(capS)
	code, e2 := strconv.Atoi(eS)
	da, oka := vh.UnHex(aS)
	db, okb := vh.UnHex(bS)
	wc, e3 := strconv.Atoi(wcS)
	rc, e4 := strconv.Atoi(rcS)
	if e1 != nil || e2 != nil || e3 != nil || e4 != nil || !oka || !okb || capN < 1 || capN > 1<<16 || wc < 1 || rc < 1 || wc > 1<<16 || rc > 1<<16 {
		return "bad-op"
	}
	for _, x := range da {
		if x&0x80 != 0 {
			return "bad-op"
		}
	}
	for _, x := range db {
		if x&0x80 == 0 {
			return "bad-op"
		}
	}
	p := pipe.NewPipeWithSize(uint32(capN))
	stop := make(chan struct{})
	var wg sync.WaitGroup
	writer := func(data []byte) {
		defer wg.Done()
		rest := append([]byte(nil), data...)
		for len(rest) > 0 {
			n := wc
			if n > len(rest) {
				n = len(rest)
			}
			k, _ := p.Write(rest[:n])
			rest = rest[k:]
			if k < n {
				select {
				case <-stop:
					return
				default:
				}
				runtime.Gosched()
			}
		}
	}
	wg.Add(2)
	go writer(da)
	go writer(db)
	go func() {
		wg.Wait()
		p.CloseWithError(errOf(code))
	}()
	type rr struct {
		got []byte
		err error
	}
	rdone := make(chan rr, 1)
	go func() {
		var got []byte
		buf := make([]byte, rc)
		for {
			k, err := p.Read(buf)
			got = append(got, buf[:k]...)
			if err != nil || len(got) > len(da)+len(db)+64 {
				rdone <- rr{got, err}
				return
			}
		}
	}()
	select {
	case r := <-rdone:
		var ga, gb []byte
		for _, x := range r.got {
			if x&0x80 == 0 {
				ga = append(ga, x)
			} else {
				gb = append(gb, x)
			}
		}
		return vh.Hex(ga) + ";" + vh.Hex(gb) + ";err" + codeOf(r.err)
	case <-time.After(deadline(30 * time.Second)):
		hangs++
		close(stop)
		p.BreakWithError(errOf(9999))
		return "HANG"
	}
}

func genStress2(r *vh.Rand) string {
	capN := []int{1, 2, 3, 4, 8, 16}[r.Intn(6)]
	mk := func(top byte) []byte {
		d := r.Bytes(r.Range(0, 10*capN))
		for i := range d {
			d[i] = d[i]&0x7f | top
		}
		return d
	}
	return fmt.Sprintf("S2;cap=%d;a=%s;b=%s;wc=%d;rc=%d;e=%d", capN, vh.Hex(mk(0)), vh.Hex(mk(0x80)),
		[]int{1, capN, capN + 1, r.Range(1, 2*capN)}[r.Intn(4)], []int{1, capN, capN + 1, r.Range(1, 2*capN)}[r.Intn(4)], r.Intn(4))
}

func genStress(r *vh.Rand) string {
	capN := []int{1, 2, 3, 4, 8, 16, 64}[r.Intn(7)]
	n := r.Range(0, 12*capN)
	if n > 400 {
		n = 400
	}
	data := r.Bytes(n)
	sz := func() string {
		k := r.Range(1, 4)
		var xs []string
		for i := 0; i < k; i++ {
			var v int
			switch r.Intn(4) {
			case 0:
				v = 1
			case 1:
				v = capN
			case 2:
				v = capN + 1
			default:
				v = r.Range(1, 2*capN)
			}
			xs = append(xs, strconv.Itoa(v))
		}
		return strings.Join(xs, ".")
	}
	return fmt.Sprintf("S;cap=%d;data=%s;wc=%s;rc=%s;e=%d", capN, vh.Hex(data), sz(), sz(), r.Intn(4))
}

func newRunner(fb *pipe.FixedBuffer) *runner {
	r := &runner{fb: fb}
	// an empty pool with New: Get returns exactly this FixedBuffer, which we keep a reference to
	r.pool = &sync.Pool{New: func() interface{} { return pipe.PipeBuffer(r.fb) }}
	r.p = pipe.NewPipeFromBufferPool(r.pool)
	return r
}

// newSizedRunner uses the other constructor, NewPipeWithSize (the buffer is then only visible through the hook).
func newSizedRunner(size int) *runner {
	return &runner{p: pipe.NewPipeWithSize(uint32(size))}
}

// do executes one token on this pipe; ok=false means the op line is malformed.
func (r *runner) do(t string, shared *sync.Pool) (res string, ok bool) {
	f := strings.SplitN(t, ":", 2)
	if len(f) == 1 {
		f = append(f, "")
	}
	switch f[0] {
	case "w":
		d, ok := vh.UnHex(f[1])
		if !ok {
			return "", false
		}
		n, e := r.p.Write(d)
		for i := range d { // the caller may reuse its slice: the pipe must have copied what it took
			d[i] ^= 0xa5
		}
		ec := "none"
		if e != nil {
			ec = codeOf(e)
		}
		return fmt.Sprintf("w=%d,%s", n, ec) + r.auto(), true
	case "c", "cf", "b":
		code, e := strconv.Atoi(f[1])
		if e != nil {
			return "", false
		}
		switch f[0] {
		case "c":
			r.p.CloseWithError(errOf(code))
			return "c" + r.auto(), true
		case "cf":
			r.p.CloseWithErrorAndCode(errOf(code), func() {
				r.fnMu.Lock()
				r.fnCount++
				r.fnMu.Unlock()
			})
			return "c" + r.auto(), true
		}
		r.p.BreakWithError(errOf(code))
		return "b" + r.auto(), true
	case "rel":
		// with a single P, sync.Pool's Put-then-Get on one goroutine is deterministic: the Get returns
		// exactly what Release Put (or nil if it Put nothing)
		old := runtime.GOMAXPROCS(1)
		r.p.Release(shared)
		x := shared.Get()
		runtime.GOMAXPROCS(old)
		r.released = true
		switch {
		case x == nil:
			return "rel=noput", true
		case r.fb != nil && x != pipe.PipeBuffer(r.fb):
			return "rel=wrongbuf", true
		}
		return "rel", true
	case "dis":
		return "dis=" + strconv.Itoa(r.p.Discard()), true
	case "r":
		n, e := strconv.Atoi(f[1])
		if e != nil || n < 0 || n > 1<<16 {
			return "", false
		}
		if r.pending != nil {
			return "r=busy", true
		}
		ch := make(chan rdResult, 1)
		r.pending = ch
		outstanding++
		go func() {
			buf := make([]byte, n)
			r.fnMu.Lock()
			before := r.fnCount
			r.fnMu.Unlock()
			k, e := r.p.Read(buf)
			r.fnMu.Lock()
			after := r.fnCount
			r.fnMu.Unlock()
			ch <- rdResult{append([]byte(nil), buf[:k]...), e, after - before}
		}()
		return r.settle("r"), true
	case "j":
		if r.pending == nil {
			return "j=none", true
		}
		return r.settle("j"), true
	case "e":
		return "e=" + codeOf(r.p.Err()), true
	case "d":
		select {
		case <-r.p.Done():
			return "d=closed", true
		default:
			return "d=open", true
		}
	case "len":
		// only parked/absent readers exist between scripted steps, so reading Len here is race free
		// (the hook takes the mutex; the harness-held FixedBuffer, when there is one, must agree)
		n := r.p.VerifC21Len()
		if n < 0 {
			return "len=nil", true
		}
		if r.fb != nil && !r.released && r.fb.Len() != n {
			return "len=INCONSISTENT", true
		}
		return "len=" + strconv.Itoa(n), true
	}
	return "", false
}

// execLifecycle: successive pipes over a pool.  `n:<buf>` creates the next pipe around buffer <buf>
// (the pool hands out exactly that buffer: sync.Pool.Get is free to return any pooled item, the op line
// fixes the choice); `<pipe>.<tok>` runs a token on that pipe; `rel` Puts the buffer into a shared pool.
func execLifecycle(op string) string {
	toks := strings.Split(op, ";")
	if len(toks) < 2 || !strings.HasPrefix(toks[1], "caps=") {
		return "bad-op"
	}
	var bufs []*pipe.FixedBuffer
	for _, c := range strings.Split(toks[1][5:], ".") {
		n, err := strconv.Atoi(c)
		if err != nil || n < 0 || n > 1<<16 {
			return "bad-op"
		}
		bufs = append(bufs, pipe.NewFixedBuffer(make([]byte, n)))
	}
	state := make([]int, len(bufs)) // 0 never used, 1 owned by a live pipe, 2 in the pool
	shared := &sync.Pool{}
	var pipes []*runner
	var owner []int
	startCase()
	defer func() {
		for _, r := range pipes {
			r.cleanup()
		}
	}()
	var res []string
	for _, t := range toks[2:] {
		if strings.HasPrefix(t, "n:") {
			b, err := strconv.Atoi(t[2:])
			if err != nil || b < 0 || b >= len(bufs) || state[b] == 1 {
				return "bad-op"
			}
			state[b] = 1
			pipes = append(pipes, newRunner(bufs[b]))
			owner = append(owner, b)
			res = append(res, "n")
			continue
		}
		f := strings.SplitN(t, ".", 2)
		if len(f) != 2 {
			return "bad-op"
		}
		i, err := strconv.Atoi(f[0])
		if err != nil || i < 0 || i >= len(pipes) {
			return "bad-op"
		}
		o, ok := pipes[i].do(f[1], shared)
		if !ok {
			return "bad-op"
		}
		if f[1] == "rel" {
			state[owner[i]] = 2
		}
		res = append(res, o)
	}
	return strings.Join(res, ";")
}

// execMulti: several reader goroutines on one pipe.  sync.Cond wakes waiters in the order in which they
// parked, and every scripted step waits until the (single) runnable reader has returned or parked again, so
// the schedule is deterministic.
func execMulti(op string) string {
	toks := strings.Split(op, ";")
	if len(toks) < 3 || !strings.HasPrefix(toks[1], "cap=") || !strings.HasPrefix(toks[2], "k=") {
		return "bad-op"
	}
	capN, e1 := strconv.Atoi(toks[1][4:])
	k, e2 := strconv.Atoi(toks[2][2:])
	if e1 != nil || e2 != nil || capN < 0 || capN > 1<<16 || k < 1 || k > 8 {
		return "bad-op"
	}
	startCase()
	p := pipe.NewPipeWithSize(uint32(capN))
	pend := make([]chan rdResult, k)
	npend := 0
	render := func(res rdResult) string {
		if res.err != nil {
			return "err" + codeOf(res.err)
		}
		return vh.Hex(res.data)
	}
	// settle: some pending reader returned -> (index, result); or all pending readers are parked -> (-1)
	settle := func() (int, string) {
		limit := time.Now().Add(deadline(30 * time.Second))
		for spins := 0; ; spins++ {
			for i, ch := range pend {
				if ch == nil {
					continue
				}
				select {
				case res := <-ch:
					pend[i] = nil
					npend--
					return i, render(res)
				default:
				}
			}
			if parkedReaders(stackBuf)-baseline >= npend {
				// re-check once: a reader may have completed between the two looks
				done := false
				for _, ch := range pend {
					if ch != nil && len(ch) > 0 {
						done = true
					}
				}
				if !done {
					return -1, "blocked"
				}
				continue
			}
			if time.Now().After(limit) {
				hangs++
				return -1, "HANG"
			}
			if spins < 50 {
				runtime.Gosched()
			} else {
				time.Sleep(50 * time.Microsecond)
			}
		}
	}
	defer func() {
		for round := 0; npend > 0 && round < 2*k+2; round++ { // Signal wakes one waiter per call
			p.BreakWithError(errOf(9999))
			if round >= k {
				p.CloseWithError(errOf(9998)) // a break should have been enough
			}
			if i, _ := settle(); i < 0 && round >= k {
				hangs++
			}
		}
	}()
	auto := func(lastParked int) string {
		if npend == 0 {
			return ""
		}
		i, r := settle()
		if i < 0 {
			if r == "HANG" {
				return ">HANG"
			}
			if lastParked >= 0 {
				return ">" + strconv.Itoa(lastParked) + ":blocked"
			}
			return ""
		}
		return ">" + strconv.Itoa(i) + ":" + r
	}
	var waitq []int // parked readers in park order (what Signal will wake next)
	var res []string
	for _, t := range toks[3:] {
		f := strings.Split(t, ":")
		switch f[0] {
		case "w", "c", "b":
			if len(f) != 2 {
				return "bad-op"
			}
			var base string
			switch f[0] {
			case "w":
				d, ok := vh.UnHex(f[1])
				if !ok {
					return "bad-op"
				}
				n, e := p.Write(d)
				ec := "none"
				if e != nil {
					ec = codeOf(e)
				}
				base = fmt.Sprintf("w=%d,%s", n, ec)
			default:
				code, err := strconv.Atoi(f[1])
				if err != nil {
					return "bad-op"
				}
				if f[0] == "c" {
					p.CloseWithError(errOf(code))
				} else {
					p.BreakWithError(errOf(code))
				}
				base = f[0]
			}
			// the Signal woke the head of the wait queue (if any): it returns, or parks again at the tail
			woken := -1
			if len(waitq) > 0 {
				woken = waitq[0]
				waitq = waitq[1:]
			}
			sfx := auto(woken)
			if woken >= 0 && strings.HasSuffix(sfx, ":blocked") {
				waitq = append(waitq, woken)
			}
			res = append(res, base+sfx)
		case "dis":
			res = append(res, "dis="+strconv.Itoa(p.Discard()))
		case "len":
			n := p.VerifC21Len()
			if n < 0 {
				res = append(res, "len=nil")
			} else {
				res = append(res, "len="+strconv.Itoa(n))
			}
		case "r":
			if len(f) != 3 {
				return "bad-op"
			}
			i, e1 := strconv.Atoi(f[1])
			n, e2 := strconv.Atoi(f[2])
			if e1 != nil || e2 != nil || n < 0 || n > 1<<16 {
				return "bad-op"
			}
			if i < 0 || i >= k {
				res = append(res, "r=noreader")
				continue
			}
			if pend[i] != nil {
				res = append(res, "r=busy")
				continue
			}
			ch := make(chan rdResult, 1)
			pend[i] = ch
			npend++
			go func() {
				buf := make([]byte, n)
				kk, e := p.Read(buf)
				ch <- rdResult{append([]byte(nil), buf[:kk]...), e, 0}
			}()
			j, r := settle()
			if j < 0 && r == "blocked" {
				waitq = append(waitq, i)
			}
			res = append(res, "r="+r)
		default:
			return "bad-op"
		}
	}
	return strings.Join(res, ";")
}

func genMulti(r *vh.Rand) string {
	capN := []int{1, 2, 3, 4, 8}[r.Intn(5)]
	k := r.Range(2, 3)
	var sb strings.Builder
	fmt.Fprintf(&sb, "M;cap=%d;k=%d", capN, k)
	next := byte(r.Intn(256))
	steps := r.Range(4, 18)
	for i := 0; i < steps; i++ {
		switch x := r.Intn(20); {
		case x < 8:
			fmt.Fprintf(&sb, ";r:%d:%d", r.Intn(k), r.Range(0, capN+1))
		case x < 15:
			n := r.Range(0, capN+1)
			d := make([]byte, n)
			for j := range d {
				d[j] = next
				next++
			}
			fmt.Fprintf(&sb, ";w:%s", vh.Hex(d))
		case x < 16:
			if i*2 > steps {
				fmt.Fprintf(&sb, ";c:%d", r.Intn(3))
			} else {
				sb.WriteString(";len")
			}
		case x < 17:
			if i*2 > steps {
				fmt.Fprintf(&sb, ";b:%d", r.Intn(3))
			} else {
				sb.WriteString(";len")
			}
		case x < 18:
			sb.WriteString(";dis")
		default:
			sb.WriteString(";len")
		}
	}
	return sb.String()
}

// execFixedBuffer drives the exported FixedBuffer directly: F;cap=N;w:<hex>;r:<n>;len;reset
func execFixedBuffer(op string) string {
	toks := strings.Split(op, ";")
	if len(toks) < 2 || !strings.HasPrefix(toks[1], "cap=") {
		return "bad-op"
	}
	capN, err := strconv.Atoi(toks[1][4:])
	if err != nil || capN < 0 || capN > 1<<16 {
		return "bad-op"
	}
	fb := pipe.NewFixedBuffer(make([]byte, capN))
	var res []string
	for _, t := range toks[2:] {
		f := strings.SplitN(t, ":", 2)
		switch f[0] {
		case "w":
			if len(f) != 2 {
				return "bad-op"
			}
			d, ok := vh.UnHex(f[1])
			if !ok {
				return "bad-op"
			}
			n, e := fb.Write(d)
			for i := range d {
				d[i] ^= 0xa5
			}
			ec := "none"
			if e != nil {
				ec = codeOf(e)
			}
			res = append(res, fmt.Sprintf("w=%d,%s", n, ec))
		case "r":
			if len(f) != 2 {
				return "bad-op"
			}
			n, e := strconv.Atoi(f[1])
			if e != nil || n < 0 || n > 1<<16 {
				return "bad-op"
			}
			buf := make([]byte, n)
			k, err := fb.Read(buf)
			ec := "none"
			if err != nil {
				ec = codeOf(err)
			}
			res = append(res, fmt.Sprintf("r=%s,%s", vh.Hex(buf[:k]), ec))
		case "len":
			res = append(res, "len="+strconv.Itoa(fb.Len()))
		case "reset":
			fb.Reset()
			res = append(res, "reset")
		default:
			return "bad-op"
		}
	}
	return strings.Join(res, ";")
}

func genFixedBuffer(r *vh.Rand) string {
	capN := []int{0, 1, 2, 3, 4, 5, 8}[r.Intn(7)]
	var sb strings.Builder
	fmt.Fprintf(&sb, "F;cap=%d", capN)
	buffered, rd, wpos := 0, 0, 0
	next := byte(r.Intn(256))
	for i, n := 0, r.Range(2, 20); i < n; i++ {
		switch k := r.Intn(10); {
		case k < 5:
			var l int
			switch r.Intn(5) {
			case 0:
				l = capN - buffered
			case 1:
				l = capN - buffered + 1
			case 2:
				l = capN - wpos
			case 3:
				l = capN - wpos + 1
			default:
				l = r.Range(0, capN+1)
			}
			if l < 0 {
				l = 0
			}
			d := make([]byte, l)
			for j := range d {
				d[j] = next
				next++
			}
			fmt.Fprintf(&sb, ";w:%s", vh.Hex(d))
			if rd > 0 && l > capN-wpos {
				wpos -= rd
				rd = 0
			}
			if l > capN-wpos {
				l = capN - wpos
			}
			wpos += l
			buffered += l
		case k < 8:
			l := []int{0, 1, buffered, buffered + 1, r.Range(0, capN+1)}[r.Intn(5)]
			fmt.Fprintf(&sb, ";r:%d", l)
			if l > buffered {
				l = buffered
			}
			buffered -= l
			rd += l
			if buffered == 0 {
				rd, wpos = 0, 0
			}
		case k < 9:
			sb.WriteString(";len")
		default:
			sb.WriteString(";reset")
			buffered, rd, wpos = 0, 0, 0
		}
	}
	return sb.String()
}

func exec(op string) (out string) {
	if strings.HasPrefix(op, "F;") {
		return execFixedBuffer(op)
	}
	if strings.HasPrefix(op, "M;") {
		return execMulti(op)
	}
	if strings.HasPrefix(op, "P;") {
		return execH2Path(op)
	}
	if strings.HasPrefix(op, "S;") {
		return execStress(op)
	}
	if strings.HasPrefix(op, "S2;") {
		return execStress2(op)
	}
	if strings.HasPrefix(op, "L;") {
		return execLifecycle(op)
	}
	toks := strings.Split(op, ";")
	sized := strings.HasPrefix(toks[0], "size=")
	if len(toks) < 1 || !(strings.HasPrefix(toks[0], "cap=") || sized) {
		return "bad-op"
	}
	capN, err := strconv.Atoi(toks[0][strings.IndexByte(toks[0], '=')+1:])
	if err != nil || capN < 0 || capN > 1<<16 {
		return "bad-op"
	}
	startCase()
	var r *runner
	if sized {
		r = newSizedRunner(capN)
	} else {
		r = newRunner(pipe.NewFixedBuffer(make([]byte, capN)))
	}
	defer r.cleanup()
	shared := &sync.Pool{}
	var res []string
	for _, t := range toks[1:] {
		o, ok := r.do(t, shared)
		if !ok {
			return "bad-op"
		}
		res = append(res, o)
	}
	return strings.Join(res, ";")
}

// genLifecycle: 2..4 successive pipes over 1..2 pooled buffers; pipes are mostly released with unread
// bytes left (or after a Discard), and the next pipe mostly re-uses the buffer just released.
func genLifecycle(r *vh.Rand) string {
	nb := r.Range(1, 2)
	caps := make([]int, nb)
	cs := make([]string, nb)
	for i := range caps {
		caps[i] = []int{1, 2, 3, 4, 8}[r.Intn(5)]
		cs[i] = strconv.Itoa(caps[i])
	}
	var sb strings.Builder
	sb.WriteString("L;caps=" + strings.Join(cs, "."))
	state := make([]int, nb) // 0 fresh, 1 live, 2 pooled
	next := byte(r.Intn(256))
	npipes := r.Range(2, 4)
	type live struct{ id, buf, buffered int }
	var alive []live
	created := 0
	for created < npipes || len(alive) > 0 {
		// maybe create
		if created < npipes && (len(alive) == 0 || r.Chance(1, 4)) {
			b := -1
			for _, cand := range r2perm(r, nb) {
				if state[cand] == 2 && r.Chance(4, 5) {
					b = cand
					break
				}
			}
			if b < 0 {
				for _, cand := range r2perm(r, nb) {
					if state[cand] != 1 {
						b = cand
						break
					}
				}
			}
			if b >= 0 {
				fmt.Fprintf(&sb, ";n:%d", b)
				state[b] = 1
				alive = append(alive, live{created, b, 0})
				created++
				if r.Chance(1, 2) {
					fmt.Fprintf(&sb, ";%d.len", created-1)
				}
			} else if len(alive) == 0 {
				break
			}
		}
		if len(alive) == 0 {
			if created >= npipes {
				break
			}
			continue
		}
		k := r.Intn(len(alive))
		p := &alive[k]
		capN := caps[p.buf]
		steps := r.Range(1, 5)
		for s := 0; s < steps; s++ {
			switch r.Intn(10) {
			case 0, 1, 2, 3:
				n := r.Range(1, capN+1)
				d := make([]byte, n)
				for j := range d {
					d[j] = next
					next++
				}
				fmt.Fprintf(&sb, ";%d.w:%s", p.id, vh.Hex(d))
				if n > capN-p.buffered {
					n = capN - p.buffered
				}
				p.buffered += n
			case 4, 5, 6:
				if p.buffered > 0 {
					n := r.Range(1, p.buffered)
					fmt.Fprintf(&sb, ";%d.r:%d", p.id, n)
					p.buffered -= n
				} else {
					fmt.Fprintf(&sb, ";%d.len", p.id)
				}
			case 7:
				fmt.Fprintf(&sb, ";%d.dis", p.id)
				p.buffered = 0
			case 8:
				fmt.Fprintf(&sb, ";%d.len", p.id)
			default:
				fmt.Fprintf(&sb, ";%d.c:%d", p.id, r.Intn(3))
			}
		}
		if r.Chance(3, 5) {
			fmt.Fprintf(&sb, ";%d.rel", p.id)
			state[p.buf] = 2
			alive = append(alive[:k], alive[k+1:]...)
		} else if created >= npipes && r.Chance(1, 3) {
			alive = append(alive[:k], alive[k+1:]...) // abandoned without Release
		}
	}
	return sb.String()
}

func r2perm(r *vh.Rand, n int) []int {
	p := make([]int, n)
	for i := range p {
		p[i] = i
	}
	for i := n - 1; i > 0; i-- {
		j := r.Intn(i + 1)
		p[i], p[j] = p[j], p[i]
	}
	return p
}

// ---- generator: a small shadow of the pipe decides what is worth doing next (it only biases the
// schedule towards interesting states; verdicts never depend on it)
type shadow struct {
	capN, buffered, rd, wpos, pendN   int
	closed, broken, released, pending bool
}

func (s *shadow) take(n int) {
	if n > s.buffered {
		n = s.buffered
	}
	s.buffered -= n
	s.rd += n
	if s.buffered == 0 {
		s.rd, s.wpos = 0, 0
	}
}

// deliverable: would a reader return right now?
func (s *shadow) deliverable() bool {
	return s.broken || s.closed || (s.buffered > 0 && !s.released)
}

func gen(r *vh.Rand) string {
	if r.Chance(1, 10) {
		if r.Chance(1, 3) {
			return genStress2(r)
		}
		return genStress(r)
	}
	if r.Chance(1, 5) {
		return genLifecycle(r)
	}
	if r.Chance(1, 12) {
		return genFixedBuffer(r)
	}
	if r.Chance(1, 10) {
		return genMulti(r)
	}
	if r.Chance(1, 25) {
		return genH2Path(r)
	}
	s := &shadow{}
	s.capN = []int{0, 1, 2, 3, 4, 5, 7, 8, 16}[r.Intn(9)]
	if r.Chance(1, 6) {
		s.capN = r.Range(1, 40)
	}
	var sb strings.Builder
	if r.Chance(1, 5) {
		fmt.Fprintf(&sb, "size=%d", s.capN) // NewPipeWithSize instead of NewPipeFromBufferPool
	} else {
		fmt.Fprintf(&sb, "cap=%d", s.capN)
	}
	steps := r.Range(3, 24)
	next := byte(r.Intn(256))
	for i := 0; i < steps; i++ {
		k := r.Intn(100)
		switch {
		case k < 36: // write, sizes around the free space / the slide threshold / the capacity
			free := s.capN - s.buffered
			var n int
			switch r.Intn(6) {
			case 0:
				n = free
			case 1:
				n = free + 1
			case 2:
				n = s.capN - s.wpos
			case 3:
				n = s.capN - s.wpos + 1
			case 4:
				n = r.Range(0, 2)
			default:
				n = r.Range(0, s.capN+2)
			}
			if n < 0 {
				n = 0
			}
			d := make([]byte, n)
			for j := range d {
				d[j] = next
				next++
			}
			fmt.Fprintf(&sb, ";w:%s", vh.Hex(d))
			if !s.closed && !s.released {
				if s.rd > 0 && n > s.capN-s.wpos {
					s.wpos -= s.rd
					s.rd = 0
				}
				acc := n
				if acc > s.capN-s.wpos {
					acc = s.capN - s.wpos
				}
				s.wpos += acc
				s.buffered += acc
			}
		case k < 70: // read
			if s.pending {
				sb.WriteString(";j")
				continue
			}
			var n int
			switch r.Intn(5) {
			case 0:
				n = s.buffered
			case 1:
				n = s.buffered + 1
			case 2:
				n = 1
			case 3:
				n = r.Range(0, 2)
			default:
				n = r.Range(1, s.capN+2)
			}
			fmt.Fprintf(&sb, ";r:%d", n)
			if s.broken {
			} else if s.buffered > 0 && !s.released {
				s.take(n)
			} else if !s.closed {
				s.pending, s.pendN = true, n
			}
			continue
		case k < 78:
			if i*3 < steps*2 && !r.Chance(1, 8) { // mostly late in the schedule
				sb.WriteString(";len")
				break
			}
			fmt.Fprintf(&sb, ";%s:%d", r.Pick("c", "c", "cf"), r.Intn(4))
			s.closed = true
		case k < 83:
			if i*3 < steps*2 && !r.Chance(1, 8) {
				sb.WriteString(";e")
				break
			}
			fmt.Fprintf(&sb, ";b:%d", r.Intn(4))
			s.broken = true
		case k < 86:
			if i*3 < steps*2 && !r.Chance(1, 6) {
				sb.WriteString(";d")
				break
			}
			if !s.released || r.Chance(1, 12) {
				sb.WriteString(";rel")
				s.released = true
				s.buffered = 0
			}
		case k < 91:
			sb.WriteString(";e")
		case k < 95:
			sb.WriteString(";d")
		default:
			if r.Chance(1, 3) {
				sb.WriteString(";dis")
				if !s.released {
					s.buffered, s.rd, s.wpos = 0, 0, 0
				}
			} else {
				sb.WriteString(";len")
			}
		}
		if s.pending {
			// the harness lets the (possibly woken) reader run right after every signalling op
			if r.Chance(1, 6) {
				sb.WriteString(";j")
			}
			if s.deliverable() {
				s.pending = false
				if !s.broken && s.buffered > 0 && !s.released {
					s.take(s.pendN)
				}
			}
		}
	}
	if r.Chance(1, 2) {
		sb.WriteString(";j;len;e;d")
	}
	return sb.String()
}

func main() {
	vh.Pre = func(emit func(op string), thorough bool) {
		// exhaustive tiny schedules over a 2-byte pipe: every sequence of length <= L from a small alphabet
		alpha := []string{"w:01", "w:0203", "w:040506", "r:1", "r:2", "j", "c:1", "c:0", "b:2", "rel", "len", "dis"}
		L := 3
		if thorough {
			L = 4
		}
		var rec func(prefix []string, depth int)
		rec = func(prefix []string, depth int) {
			if depth > 0 {
				emit("cap=2;" + strings.Join(prefix, ";"))
			}
			if depth == L {
				return
			}
			for _, a := range alpha {
				rec(append(prefix, a), depth+1)
			}
		}
		rec(nil, 0)
	}
	vh.Main(gen, exec)
}
