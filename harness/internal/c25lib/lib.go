// Package c25lib is shared by the C25 and C26 harnesses: the line encoding `R` of a bfe_http.Request as far
// as (*Request).write consults it, construction of the real Request from it, and extraction of `R`
// from a Request a real frontend built.
package c25lib

import (
	"errors"
	"io"
	"net/url"
	"sort"
	"strconv"
	"strings"

	"bfeverif/harness/internal/vh"
	"github.com/bfenetworks/bfe/bfe_http"
)

// R mirrors the Lean structure BfeVerif.C25.Req (+ harness-only keys ba/rwp/rwq that steer how the URL is built).
type R struct {
	Method     string
	RequestURI string
	URLRuri    string // derived: URL.RequestURI()
	PathEmpty  bool   // derived: URL.Path == ""
	Reparse    *string
	ReparseOK  bool
	Host       string
	URLHost    string // derived
	Header     map[string][]string
	Body       []string // pieces
	BodyNil    bool
	CL         int64
	TE         []string
	Close      bool
	AtLeast11  bool
	Trailer    []string
	TrailerNil bool
	// harness-only
	BackendAddr bool    // setBackendAddr: URL.Scheme="http", URL.Host="10.1.2.3:8080"
	RwPath      *string // a module rewrote URL.Path
	RwQuery     *string // a module rewrote URL.RawQuery
}

func hx(s string) string { return vh.Hex([]byte(s)) }

func list(xs []string) string {
	if len(xs) == 0 {
		return "_"
	}
	out := make([]string, len(xs))
	for i, x := range xs {
		out[i] = hx(x)
	}
	return strings.Join(out, ",")
}

func b01(b bool) string {
	if b {
		return "1"
	}
	return "0"
}

// HeaderString renders a header map canonically (keys sorted).
func HeaderString(h map[string][]string) string {
	if len(h) == 0 {
		return "_"
	}
	keys := make([]string, 0, len(h))
	for k := range h {
		keys = append(keys, k)
	}
	sort.Strings(keys)
	out := make([]string, len(keys))
	for i, k := range keys {
		out[i] = hx(k) + ":" + list(h[k])
	}
	return strings.Join(out, "|")
}

func (r *R) Encode() string {
	var f []string
	add := func(k, v string) { f = append(f, k+"="+v) }
	add("m", hx(r.Method))
	add("u", hx(r.RequestURI))
	add("uu", hx(r.URLRuri))
	add("pe", b01(r.PathEmpty))
	if r.Reparse == nil {
		add("rp", "nil")
	} else {
		add("rp", hx(*r.Reparse))
	}
	add("rb", b01(r.ReparseOK))
	add("h", hx(r.Host))
	add("uh", hx(r.URLHost))
	add("hd", HeaderString(r.Header))
	if r.BodyNil {
		add("b", "nil")
	} else {
		add("b", list(r.Body))
	}
	add("cl", strconv.FormatInt(r.CL, 10))
	add("te", list(r.TE))
	add("c", b01(r.Close))
	add("p", b01(r.AtLeast11))
	if r.TrailerNil {
		add("tr", "nil")
	} else {
		add("tr", list(r.Trailer))
	}
	add("ba", b01(r.BackendAddr))
	if r.RwPath != nil {
		add("rwp", hx(*r.RwPath))
	}
	if r.RwQuery != nil {
		add("rwq", hx(*r.RwQuery))
	}
	return strings.Join(f, ";")
}

func unhx(s string) (string, bool) {
	b, ok := vh.UnHex(s)
	return string(b), ok
}

func unlist(s string) ([]string, bool) {
	if s == "_" {
		return nil, true
	}
	var out []string
	for _, p := range strings.Split(s, ",") {
		x, ok := unhx(p)
		if !ok {
			return nil, false
		}
		out = append(out, x)
	}
	return out, true
}

// ParseHeader decodes HeaderString.
func ParseHeader(s string) (map[string][]string, bool) {
	h := map[string][]string{}
	if s == "_" {
		return h, true
	}
	for _, e := range strings.Split(s, "|") {
		kv := strings.Split(e, ":")
		if len(kv) != 2 {
			return nil, false
		}
		k, ok := unhx(kv[0])
		if !ok {
			return nil, false
		}
		if _, dup := h[k]; dup {
			return nil, false
		}
		vs, ok := unlist(kv[1])
		if !ok {
			return nil, false
		}
		if vs == nil {
			vs = []string{}
		}
		h[k] = vs
	}
	return h, true
}

func Decode(s string) (*R, bool) {
	m := map[string]string{}
	for _, f := range strings.Split(s, ";") {
		kv := strings.SplitN(f, "=", 2)
		if len(kv) != 2 {
			return nil, false
		}
		m[kv[0]] = kv[1]
	}
	r := &R{}
	ok := true
	get := func(k string) string {
		v, present := m[k]
		if !present {
			ok = false
		}
		return v
	}
	str := func(k string) string {
		v, o := unhx(get(k))
		if !o {
			ok = false
		}
		return v
	}
	bl := func(k string) bool {
		v := get(k)
		if v != "0" && v != "1" {
			ok = false
		}
		return v == "1"
	}
	r.Method = str("m")
	r.RequestURI = str("u")
	r.URLRuri = str("uu")
	r.PathEmpty = bl("pe")
	if get("rp") != "nil" {
		v := str("rp")
		r.Reparse = &v
	}
	r.ReparseOK = bl("rb")
	r.Host = str("h")
	r.URLHost = str("uh")
	var o bool
	if r.Header, o = ParseHeader(get("hd")); !o {
		ok = false
	}
	if get("b") == "nil" {
		r.BodyNil = true
	} else if r.Body, o = unlist(get("b")); !o {
		ok = false
	}
	for _, p := range r.Body {
		if p == "" {
			ok = false
		}
	}
	cl, err := strconv.ParseInt(get("cl"), 10, 64)
	if err != nil {
		ok = false
	}
	r.CL = cl
	if r.TE, o = unlist(get("te")); !o {
		ok = false
	}
	r.Close = bl("c")
	r.AtLeast11 = bl("p")
	if get("tr") == "nil" {
		r.TrailerNil = true
	} else if r.Trailer, o = unlist(get("tr")); !o {
		ok = false
	}
	if len(r.Trailer) > 1 {
		ok = false
	}
	if v, present := m["ba"]; present {
		r.BackendAddr = v == "1"
	}
	if v, present := m["rwp"]; present {
		s, o := unhx(v)
		if !o {
			ok = false
		}
		r.RwPath = &s
	}
	if v, present := m["rwq"]; present {
		s, o := unhx(v)
		if !o {
			ok = false
		}
		r.RwQuery = &s
	}
	return r, ok
}

// PieceReader returns the pieces one Read at a time; it implements neither WriterTo nor anything else.
type PieceReader struct {
	pieces []string
	Closed bool
}

func NewPieceReader(p []string) *PieceReader {
	return &PieceReader{pieces: append([]string(nil), p...)}
}

func (p *PieceReader) Read(b []byte) (int, error) {
	for len(p.pieces) > 0 && p.pieces[0] == "" {
		p.pieces = p.pieces[1:]
	}
	if len(p.pieces) == 0 {
		return 0, io.EOF
	}
	if len(b) == 0 {
		return 0, nil
	}
	n := copy(b, p.pieces[0])
	p.pieces[0] = p.pieces[0][n:]
	return n, nil
}

func (p *PieceReader) Close() error { p.Closed = true; return nil }

// ParseTarget builds the URL the way the three frontends do (ReadRequest's CONNECT special case included).
func ParseTarget(method, uri string) (*url.URL, error) {
	just := method == "CONNECT" && !strings.HasPrefix(uri, "/")
	raw := uri
	if just {
		raw = "http://" + raw
	}
	u, err := url.ParseRequestURI(raw)
	if err != nil {
		return nil, err
	}
	if just {
		u.Scheme = ""
	}
	return u, nil
}

// FillDerived computes the net/url-derived facts of r from u (the URL as it will be at Write time).
func (r *R) FillDerived(u *url.URL) {
	r.URLRuri = u.RequestURI()
	r.PathEmpty = u.Path == ""
	r.URLHost = u.Host
	r.Reparse = nil
	r.ReparseOK = false
	if ru, err := url.ParseRequestURI(r.RequestURI); err == nil {
		s := ru.RequestURI()
		r.Reparse = &s
		r.ReparseOK = ru.Scheme == "" && ru.Host == "" && ru.Opaque == ""
	}
}

// URL builds the URL of r: parse RequestURI, then the scripted rewrites.
func (r *R) URL() (*url.URL, error) {
	u, err := ParseTarget(r.Method, r.RequestURI)
	if err != nil {
		return nil, err
	}
	if r.RwPath != nil {
		u.Path = *r.RwPath
		u.RawPath = ""
	}
	if r.RwQuery != nil {
		u.RawQuery = *r.RwQuery
	}
	if r.BackendAddr {
		u.Scheme = "http"
		u.Host = "10.1.2.3:8080"
	}
	return u, nil
}

var ErrFacts = errors.New("derived facts of the op do not match net/url")

// Build constructs the real Request. The derived facts in r must equal what net/url computes.
func (r *R) Build() (*bfe_http.Request, error) {
	u, err := r.URL()
	if err != nil {
		return nil, err
	}
	chk := *r
	chk.FillDerived(u)
	same := chk.URLRuri == r.URLRuri && chk.PathEmpty == r.PathEmpty && chk.URLHost == r.URLHost &&
		chk.ReparseOK == r.ReparseOK && (chk.Reparse == nil) == (r.Reparse == nil) &&
		(chk.Reparse == nil || *chk.Reparse == *r.Reparse)
	if !same {
		return nil, ErrFacts
	}
	req := &bfe_http.Request{
		Method:           r.Method,
		URL:              u,
		RequestURI:       r.RequestURI,
		Host:             r.Host,
		Header:           bfe_http.Header{},
		ContentLength:    r.CL,
		TransferEncoding: append([]string(nil), r.TE...),
		Close:            r.Close,
		State:            &bfe_http.RequestState{},
	}
	if len(r.TE) == 0 {
		req.TransferEncoding = nil
	}
	if r.AtLeast11 {
		req.Proto, req.ProtoMajor, req.ProtoMinor = "HTTP/1.1", 1, 1
	} else {
		req.Proto, req.ProtoMajor, req.ProtoMinor = "HTTP/1.0", 1, 0
	}
	for k, vs := range r.Header {
		req.Header[k] = append([]string{}, vs...)
	}
	if !r.BodyNil {
		req.Body = NewPieceReader(r.Body)
	}
	if !r.TrailerNil {
		req.Trailer = bfe_http.Header{}
		for _, k := range r.Trailer {
			if bfe_http.CanonicalHeaderKey(k) != k {
				return nil, ErrFacts
			}
			req.Trailer[k] = nil
		}
	}
	return req, nil
}

// FromRequest extracts R from a Request built by a real frontend. body = the bytes its Body delivered.
func FromRequest(req *bfe_http.Request, body string, bodyNil bool) *R {
	r := &R{
		Method: req.Method, RequestURI: req.RequestURI, Host: req.Host,
		Header: map[string][]string{}, CL: req.ContentLength,
		TE: append([]string(nil), req.TransferEncoding...), Close: req.Close,
		AtLeast11: req.ProtoAtLeast(1, 1), BodyNil: bodyNil, TrailerNil: req.Trailer == nil,
	}
	for k, vs := range req.Header {
		r.Header[k] = append([]string{}, vs...)
	}
	if body != "" {
		r.Body = []string{body}
	}
	for k := range req.Trailer {
		r.Trailer = append(r.Trailer, k)
	}
	sort.Strings(r.Trailer)
	r.FillDerived(req.URL)
	return r
}

// SegReader delivers the input in scripted segments: "-" whole, "1" one byte per Read, "c<o1>,<o2>,…" cut at the
// offsets, prefix "e" = an empty Read (0, nil) before every segment; data and EOF never come together except with "z".
type SegReader struct {
	data  []byte
	cuts  []int
	empty bool
	flip  bool
}

func NewSegReader(data []byte, spec string) (*SegReader, bool) {
	r := &SegReader{data: data}
	if strings.HasPrefix(spec, "e") {
		r.empty = true
		spec = spec[1:]
	}
	switch {
	case spec == "-" || spec == "":
	case spec == "1":
		for i := 1; i < len(data); i++ {
			r.cuts = append(r.cuts, i)
		}
	case strings.HasPrefix(spec, "c"):
		for _, f := range strings.Split(spec[1:], ",") {
			n := 0
			for _, c := range f {
				if c < '0' || c > '9' {
					return nil, false
				}
				n = n*10 + int(c-'0')
			}
			if n <= 0 || n >= len(data) || (len(r.cuts) > 0 && n <= r.cuts[len(r.cuts)-1]) {
				return nil, false
			}
			r.cuts = append(r.cuts, n)
		}
	default:
		return nil, false
	}
	return r, true
}

func (r *SegReader) Read(p []byte) (int, error) {
	if len(r.data) == 0 {
		return 0, io.EOF
	}
	if r.empty && !r.flip {
		r.flip = true
		return 0, nil
	}
	r.flip = false
	n := len(r.data)
	if len(r.cuts) > 0 {
		n = r.cuts[0]
	}
	if n > len(p) {
		n = len(p)
	}
	copy(p, r.data[:n])
	r.data = r.data[n:]
	for i := range r.cuts {
		r.cuts[i] -= n
	}
	for len(r.cuts) > 0 && r.cuts[0] <= 0 {
		r.cuts = r.cuts[1:]
	}
	return n, nil
}
