package c4xtls

// A tiny PKI for the client-certificate streams of C41 and C44: two CAs (A, B) and client leaves
// A, B (issued by CA A / B, EKU clientAuth), noeku (issued by A, no EKU), srvonly (issued by A, EKU serverAuth),
// self (self-signed).  Keys are fresh per process; nothing key-dependent is ever compared.

import (
	"crypto/ecdsa"
	"crypto/elliptic"
	"crypto/rand"
	"crypto/tls"
	"crypto/x509"
	"crypto/x509/pkix"
	"encoding/pem"
	"math/big"
	"sync"
	"time"
)

type pkiT struct {
	caPEM        map[string][]byte
	poolA, poolB *x509.CertPool
	client       map[string]*tls.Certificate
}

var (
	pkiOnce sync.Once
	thePKI  pkiT
	pkiErr  error
)

func makeCA(cn string) (*x509.Certificate, *ecdsa.PrivateKey, error) {
	k, err := ecdsa.GenerateKey(elliptic.P256(), rand.Reader)
	if err != nil {
		return nil, nil, err
	}
	t := &x509.Certificate{SerialNumber: big.NewInt(1), Subject: pkix.Name{CommonName: cn}, IsCA: true,
		NotBefore: time.Unix(1600000000, 0), NotAfter: time.Unix(4000000000, 0), BasicConstraintsValid: true,
		KeyUsage: x509.KeyUsageCertSign | x509.KeyUsageDigitalSignature}
	der, err := x509.CreateCertificate(rand.Reader, t, t, &k.PublicKey, k)
	if err != nil {
		return nil, nil, err
	}
	c, err := x509.ParseCertificate(der)
	return c, k, err
}

func makeLeaf(cn string, ca *x509.Certificate, cak *ecdsa.PrivateKey, eku []x509.ExtKeyUsage) (*tls.Certificate, error) {
	k, err := ecdsa.GenerateKey(elliptic.P256(), rand.Reader)
	if err != nil {
		return nil, err
	}
	t := &x509.Certificate{SerialNumber: big.NewInt(7), Subject: pkix.Name{CommonName: cn},
		NotBefore: time.Unix(1600000000, 0), NotAfter: time.Unix(4000000000, 0),
		KeyUsage: x509.KeyUsageDigitalSignature, ExtKeyUsage: eku}
	parent, pk := ca, cak
	if ca == nil { // self-signed
		parent, pk = t, k
	}
	der, err := x509.CreateCertificate(rand.Reader, t, parent, &k.PublicKey, pk)
	if err != nil {
		return nil, err
	}
	return &tls.Certificate{Certificate: [][]byte{der}, PrivateKey: k}, nil
}

func makePKI() {
	caA, kA, err := makeCA("verif CA A")
	if err != nil {
		pkiErr = err
		return
	}
	caB, kB, err := makeCA("verif CA B")
	if err != nil {
		pkiErr = err
		return
	}
	thePKI.poolA, thePKI.poolB = x509.NewCertPool(), x509.NewCertPool()
	thePKI.caPEM = map[string][]byte{
		"A": pem.EncodeToMemory(&pem.Block{Type: "CERTIFICATE", Bytes: caA.Raw}),
		"B": pem.EncodeToMemory(&pem.Block{Type: "CERTIFICATE", Bytes: caB.Raw}),
	}
	thePKI.poolA.AddCert(caA)
	thePKI.poolB.AddCert(caB)
	thePKI.client = map[string]*tls.Certificate{}
	ca := []x509.ExtKeyUsage{x509.ExtKeyUsageClientAuth}
	for _, d := range []struct {
		name string
		ca   *x509.Certificate
		k    *ecdsa.PrivateKey
		eku  []x509.ExtKeyUsage
	}{{"A", caA, kA, ca}, {"B", caB, kB, ca}, {"noeku", caA, kA, nil},
		{"srvonly", caA, kA, []x509.ExtKeyUsage{x509.ExtKeyUsageServerAuth}}, {"self", nil, nil, ca}} {
		c, err := makeLeaf("client "+d.name, d.ca, d.k, d.eku)
		if err != nil {
			pkiErr = err
			return
		}
		thePKI.client[d.name] = c
	}
}

func ensurePKI() { pkiOnce.Do(makePKI) }

// PKIErr reports a failure to build the PKI.
func PKIErr() error { ensurePKI(); return pkiErr }

// PoolOf returns the CA pool named "A" or "B" (nil otherwise).
func PoolOf(s string) *x509.CertPool {
	ensurePKI()
	switch s {
	case "A":
		return thePKI.poolA
	case "B":
		return thePKI.poolB
	}
	return nil
}

// ClientCert returns the client certificate of the given kind (nil if unknown).
func ClientCert(kind string) *tls.Certificate { ensurePKI(); return thePKI.client[kind] }

// CAPEM returns the PEM encoding of CA "A" / "B" (as a client CA file holds it).
func CAPEM(name string) []byte { ensurePKI(); return thePKI.caPEM[name] }
