// Package c4xtls holds what the C41 and C44 harnesses share: the textual case format of a
// (Config, Rule, ClientHello) negotiation case, building the real bfe_tls.Config from it, and generators.
// It calls no verif hook itself (each property's command uses its own hook file).
package c4xtls

import (
	"fmt"
	"strconv"
	"strings"

	"bfeverif/harness/internal/vh"
	"github.com/bfenetworks/bfe/bfe_tls"
)

var TableSuites = []uint16{0xcca8, 0xcca9, 0xc02f, 0xc02b, 0xc011, 0xc007, 0xc013, 0xc009, 0xc014, 0xc00a,
	0x0005, 0x002f, 0x0035, 0xc012, 0x000a, 0xe019}

var ProtoAlphabet = []string{"h2", "http/1.1", "spdy/3.1", "stream", "x"}

// ---------------------------------------------------------------------------------------------
// case representation (shared by gen and exec through the op line)

type Kase struct {
	Min, Max    uint16
	CsNil       bool
	Cs          []uint16
	Pri         []uint16
	PreferSrv   bool
	Poodle      bool
	TkDisabled  bool
	CacheDis    bool
	HasCache    bool
	Np          []string
	ClientAuth  int
	CurvePrefs  []uint16
	Cert        string // r e n
	RuleOn      bool
	Grade       string
	RuleCA      bool
	RuleChacha  bool
	RuleNp      []string
	Hv          uint16
	Suites      []uint16
	Compression []uint8
	Curves      []uint16
	Points      []uint8
	Alpn        []string
	Npn         bool
	TkSupported bool
	Ticket      string
	Sid         string
}

func Hex4(v uint16) string { return fmt.Sprintf("%04x", v) }

func JoinHex(xs []uint16) string {
	if len(xs) == 0 {
		return "-"
	}
	p := make([]string, len(xs))
	for i, x := range xs {
		p[i] = Hex4(x)
	}
	return strings.Join(p, ",")
}

func JoinDec16(xs []uint16) string {
	if len(xs) == 0 {
		return "-"
	}
	p := make([]string, len(xs))
	for i, x := range xs {
		p[i] = strconv.Itoa(int(x))
	}
	return strings.Join(p, ",")
}

func JoinDec8(xs []uint8) string {
	if len(xs) == 0 {
		return "-"
	}
	p := make([]string, len(xs))
	for i, x := range xs {
		p[i] = strconv.Itoa(int(x))
	}
	return strings.Join(p, ",")
}

func JoinStr(xs []string) string {
	if len(xs) == 0 {
		return "-"
	}
	return strings.Join(xs, ",")
}

func B01(bs ...bool) string {
	var sb strings.Builder
	for _, b := range bs {
		if b {
			sb.WriteByte('1')
		} else {
			sb.WriteByte('0')
		}
	}
	return sb.String()
}

func (k *Kase) CfgFields() string {
	cs := JoinHex(k.Cs)
	if k.CsNil {
		cs = "n"
	}
	g := k.Grade
	if g == "" {
		g = "-"
	}
	ro := "0"
	if k.RuleOn {
		ro = "1"
	}
	return strings.Join([]string{Hex4(k.Min), Hex4(k.Max), cs, JoinDec16(k.Pri),
		B01(k.PreferSrv, k.Poodle, k.TkDisabled, k.CacheDis, k.HasCache), JoinStr(k.Np), strconv.Itoa(k.ClientAuth),
		JoinDec16(k.CurvePrefs), k.Cert, ro, g, B01(k.RuleCA, k.RuleChacha), JoinStr(k.RuleNp)}, " ")
}

func (k *Kase) HelloFields() string {
	return strings.Join([]string{Hex4(k.Hv), JoinHex(k.Suites), JoinDec8(k.Compression), JoinDec16(k.Curves),
		JoinDec8(k.Points), JoinStr(k.Alpn), B01(k.Npn, k.TkSupported), k.Ticket, k.Sid}, " ")
}

func (k *Kase) Op() string { return "rch " + k.CfgFields() + " " + k.HelloFields() }

func SplitList(s string) []string {
	if s == "-" {
		return nil
	}
	return strings.Split(s, ",")
}

func ParseHexList(s string) ([]uint16, bool) {
	var out []uint16
	for _, x := range SplitList(s) {
		v, err := strconv.ParseUint(x, 16, 16)
		if err != nil {
			return nil, false
		}
		out = append(out, uint16(v))
	}
	return out, true
}

func ParseDecList(s string, bits int) ([]uint16, bool) {
	var out []uint16
	for _, x := range SplitList(s) {
		v, err := strconv.ParseUint(x, 10, bits)
		if err != nil {
			return nil, false
		}
		out = append(out, uint16(v))
	}
	return out, true
}

func To8(xs []uint16) []uint8 {
	var out []uint8
	for _, x := range xs {
		out = append(out, uint8(x))
	}
	return out
}

func Flags(s string, n int) ([]bool, bool) {
	if len(s) != n {
		return nil, false
	}
	out := make([]bool, n)
	for i := 0; i < n; i++ {
		switch s[i] {
		case '1':
			out[i] = true
		case '0':
		default:
			return nil, false
		}
	}
	return out, true
}

// ParseCfg reads the 13 config/rule fields.
func ParseCfg(f []string, k *Kase) bool {
	if len(f) != 13 {
		return false
	}
	mn, e1 := strconv.ParseUint(f[0], 16, 16)
	mx, e2 := strconv.ParseUint(f[1], 16, 16)
	if e1 != nil || e2 != nil {
		return false
	}
	k.Min, k.Max = uint16(mn), uint16(mx)
	var ok bool
	if f[2] == "n" {
		k.CsNil = true
	} else if k.Cs, ok = ParseHexList(f[2]); !ok {
		return false
	}
	if k.Pri, ok = ParseDecList(f[3], 16); !ok {
		return false
	}
	fl, ok := Flags(f[4], 5)
	if !ok {
		return false
	}
	k.PreferSrv, k.Poodle, k.TkDisabled, k.CacheDis, k.HasCache = fl[0], fl[1], fl[2], fl[3], fl[4]
	k.Np = SplitList(f[5])
	ca, err := strconv.Atoi(f[6])
	if err != nil {
		return false
	}
	k.ClientAuth = ca
	if k.CurvePrefs, ok = ParseDecList(f[7], 16); !ok {
		return false
	}
	k.Cert = f[8]
	k.RuleOn = f[9] == "1"
	k.Grade = f[10]
	if k.Grade == "-" {
		k.Grade = ""
	}
	rf, ok := Flags(f[11], 2)
	if !ok {
		return false
	}
	k.RuleCA, k.RuleChacha = rf[0], rf[1]
	k.RuleNp = SplitList(f[12])
	return true
}

func ParseHello(f []string, k *Kase) bool {
	if len(f) != 9 {
		return false
	}
	hv, err := strconv.ParseUint(f[0], 16, 16)
	if err != nil {
		return false
	}
	k.Hv = uint16(hv)
	var ok bool
	if k.Suites, ok = ParseHexList(f[1]); !ok {
		return false
	}
	c, ok := ParseDecList(f[2], 8)
	if !ok {
		return false
	}
	k.Compression = To8(c)
	if k.Curves, ok = ParseDecList(f[3], 16); !ok {
		return false
	}
	p, ok := ParseDecList(f[4], 8)
	if !ok {
		return false
	}
	k.Points = To8(p)
	k.Alpn = SplitList(f[5])
	hf, ok := Flags(f[6], 2)
	if !ok {
		return false
	}
	k.Npn, k.TkSupported = hf[0], hf[1]
	k.Ticket, k.Sid = f[7], f[8]
	return true
}

// ---------------------------------------------------------------------------------------------
// building the real configuration

type ZeroReader struct{}

func (ZeroReader) Read(p []byte) (int, error) {
	for i := range p {
		p[i] = 0
	}
	return len(p), nil
}

type FixedProtos []string

func (f FixedProtos) Get(c *bfe_tls.Conn) []string { return []string(f) }

type FixedRule struct{ R *bfe_tls.Rule }

func (f FixedRule) Get(c *bfe_tls.Conn) *bfe_tls.Rule { return f.R }

type MapCache map[string][]byte

func (m MapCache) Get(k string) ([]byte, bool)  { v, ok := m[k]; return v, ok }
func (m MapCache) Put(k string, v []byte) error { m[k] = v; return nil }

func TicketKey() (k [32]byte) {
	for i := range k {
		k[i] = byte(i + 1)
	}
	return
}

var Master48 = func() []byte {
	b := make([]byte, 48)
	for i := range b {
		b[i] = byte(0xa0 + i)
	}
	return b
}()

func BuildConfig(k *Kase) (*bfe_tls.Config, MapCache) {
	cfg := &bfe_tls.Config{
		Rand:                     ZeroReader{},
		MinVersion:               k.Min,
		MaxVersion:               k.Max,
		CipherSuitesPriority:     k.Pri,
		PreferServerCipherSuites: k.PreferSrv,
		Ssl3PoodleProofed:        k.Poodle,
		SessionTicketsDisabled:   k.TkDisabled,
		SessionCacheDisabled:     k.CacheDis,
		NextProtos:               k.Np,
		ClientAuth:               bfe_tls.ClientAuthType(k.ClientAuth),
		SessionTicketKey:         TicketKey(),
	}
	if !k.CsNil {
		cfg.CipherSuites = append([]uint16{}, k.Cs...)
	}
	for _, c := range k.CurvePrefs {
		cfg.CurvePreferences = append(cfg.CurvePreferences, bfe_tls.CurveID(c))
	}
	var cache MapCache
	if k.HasCache {
		cache = MapCache{}
		cfg.ServerSessionCache = cache
	}
	if k.RuleOn {
		cfg.ServerRule = FixedRule{R: &bfe_tls.Rule{NextProtos: FixedProtos(k.RuleNp), Grade: k.Grade,
			ClientAuth: k.RuleCA, Chacha20: k.RuleChacha}}
	}
	return cfg, cache
}

func ParseSess(s string) (vers, suite uint16, certs [][]byte, ok bool) {
	p := strings.Split(s, ":")
	if len(p) != 3 {
		return
	}
	v, e1 := strconv.ParseUint(p[0], 16, 16)
	su, e2 := strconv.ParseUint(p[1], 16, 16)
	n, e3 := strconv.Atoi(p[2])
	if e1 != nil || e2 != nil || e3 != nil || n < 0 || n > 8 {
		return
	}
	for i := 0; i < n; i++ {
		certs = append(certs, []byte{0x30, byte(i)})
	}
	return uint16(v), uint16(su), certs, true
}

// ---------------------------------------------------------------------------------------------
// generator

func PickVersion(r *vh.Rand) uint16 { return uint16(0x0300 + r.Intn(4)) }

func Subset(r *vh.Rand, xs []uint16, keepNum, keepDen int) []uint16 {
	var out []uint16
	for _, x := range xs {
		if r.Chance(keepNum, keepDen) {
			out = append(out, x)
		}
	}
	return out
}

func Shuffle16(r *vh.Rand, xs []uint16) []uint16 {
	out := append([]uint16{}, xs...)
	for i := len(out) - 1; i > 0; i-- {
		j := r.Intn(i + 1)
		out[i], out[j] = out[j], out[i]
	}
	return out
}

func ProtoList(r *vh.Rand) []string {
	var out []string
	switch r.Intn(6) {
	case 0:
		return nil
	case 1:
		return []string{"h2", "http/1.1"}
	case 2:
		return []string{"h2"}
	}
	for _, p := range ProtoAlphabet {
		if r.Chance(1, 2) {
			out = append(out, p)
		}
	}
	for i := len(out) - 1; i > 0; i-- {
		j := r.Intn(i + 1)
		out[i], out[j] = out[j], out[i]
	}
	return out
}

func GenCfg(r *vh.Rand, k *Kase) {
	if r.Chance(2, 5) {
		k.Min = PickVersion(r)
	}
	if r.Chance(1, 2) {
		k.Max = PickVersion(r)
		if k.Min != 0 && k.Max < k.Min && !r.Chance(1, 6) {
			k.Min, k.Max = k.Max, k.Min
		}
	}
	switch r.Intn(10) {
	case 0, 1, 2:
		k.CsNil = true
	case 3:
		k.Cs = nil // empty, non-nil
		if r.Bool() {
			k.Cs = []uint16{0x1234}
		}
	default:
		k.Cs = Shuffle16(r, Subset(r, TableSuites, 3, 5))
		if r.Chance(1, 8) {
			k.Cs = append(k.Cs, 0x1234)
		}
		if r.Chance(1, 10) && len(k.Cs) > 0 {
			k.Cs = append(k.Cs, k.Cs[r.Intn(len(k.Cs))])
		}
	}
	k.PreferSrv = r.Chance(3, 5)
	if k.PreferSrv && r.Chance(3, 5) {
		n := len(k.Cs)
		if k.CsNil {
			n = len(TableSuites)
		}
		if r.Chance(1, 8) {
			n += r.Range(-1, 1)
		}
		if n < 0 {
			n = 0
		}
		cur := 0
		for i := 0; i < n; i++ {
			if r.Chance(2, 5) {
				cur++
			}
			v := cur
			if r.Chance(1, 30) {
				v = r.Intn(4) // non-monotone priorities: the code does not require them to be sorted
			}
			k.Pri = append(k.Pri, uint16(v))
		}
	}
	k.Poodle = r.Chance(1, 2)
	k.TkDisabled = r.Chance(1, 7)
	k.CacheDis = r.Chance(1, 5)
	k.HasCache = r.Chance(4, 5)
	k.Np = ProtoList(r)
	if r.Chance(1, 4) {
		k.ClientAuth = r.Intn(5)
	}
	if r.Chance(1, 4) {
		k.CurvePrefs = Subset(r, []uint16{23, 24, 25, 29}, 1, 2)
	}
	k.Cert = "r"
	if r.Chance(1, 3) {
		k.Cert = "e"
	}
	if r.Chance(1, 60) {
		k.Cert = "n"
	}
	k.RuleOn = r.Chance(3, 4)
	k.Grade = "C"
	if k.RuleOn {
		k.Grade = r.Pick("A+", "A", "A", "B", "B", "C", "C")
		if r.Chance(1, 40) {
			k.Grade = r.Pick("", "X", "a")
		}
		k.RuleCA = r.Chance(1, 6)
		k.RuleChacha = r.Chance(1, 2)
		k.RuleNp = ProtoList(r)
	} else if r.Chance(1, 2) {
		// values must be ignored when no rule is returned; keep them canonical
		k.Grade = "C"
	}
}

// effective version range / suite list of the configuration (generator-side convenience only)
func effRange(k *Kase) (lo, hi uint16) {
	lo, hi = k.Min, k.Max
	if lo == 0 {
		lo = 0x0300
	}
	if hi == 0 {
		hi = 0x0303
	}
	return
}

func effSuites(k *Kase) []uint16 {
	if k.CsNil {
		return TableSuites
	}
	return k.Cs
}

func GenSess(r *vh.Rand, k *Kase) string {
	v := k.Hv
	_, hi := effRange(k)
	if v > hi {
		v = hi // what the server would negotiate
	}
	if r.Chance(1, 4) {
		v = PickVersion(r)
	}
	var su uint16
	var both []uint16
	for _, a := range k.Suites {
		for _, b := range effSuites(k) {
			if a == b {
				both = append(both, a)
				break
			}
		}
	}
	switch {
	case len(both) > 0 && r.Chance(3, 4):
		su = both[r.Intn(len(both))]
	case len(k.Suites) > 0 && r.Chance(1, 2):
		su = k.Suites[r.Intn(len(k.Suites))]
	default:
		su = TableSuites[r.Intn(len(TableSuites))]
	}
	n := 0
	if r.Chance(1, 4) || (k.ClientAuth == 2 || k.ClientAuth == 4 || (k.RuleOn && k.RuleCA)) && r.Chance(2, 3) {
		n = r.Range(1, 2)
	}
	return fmt.Sprintf("%s:%s:%d", Hex4(v), Hex4(su), n)
}

func GenHello(r *vh.Rand, k *Kase) {
	k.Hv = PickVersion(r)
	if lo, hi := effRange(k); r.Chance(2, 3) && lo <= hi {
		// usually a version the server can serve (at or above its minimum, up to one above its maximum)
		top := hi + 1
		if top > 0x0303 {
			top = 0x0303
		}
		k.Hv = lo + uint16(r.Intn(int(top-lo)+1))
	}
	switch r.Intn(40) {
	case 0:
		k.Hv = 0x0304
	case 1:
		k.Hv = 0x0200
		if r.Bool() {
			k.Hv = 0x0002
		}
	case 2:
		k.Hv = 0x0400
	}
	k.Suites = Shuffle16(r, Subset(r, TableSuites, 1, 2))
	if es := effSuites(k); r.Chance(1, 2) && len(es) > 0 {
		// make sure a few of the server's suites are on offer
		for i := 0; i < 3; i++ {
			k.Suites = append(k.Suites, es[r.Intn(len(es))])
		}
		k.Suites = Shuffle16(r, k.Suites)
	}
	if r.Chance(1, 6) && !k.CsNil && len(k.Cs) > 0 {
		// a hello that shares exactly one suite with the server
		k.Suites = []uint16{k.Cs[r.Intn(len(k.Cs))]}
	}
	ins := func(x uint16) {
		i := r.Intn(len(k.Suites) + 1)
		k.Suites = append(k.Suites[:i], append([]uint16{x}, k.Suites[i:]...)...)
	}
	if r.Chance(1, 3) {
		ins(0x5600)
	}
	if r.Chance(1, 3) {
		ins(0x00ff)
	}
	if r.Chance(1, 8) {
		ins(0x1234)
	}
	if r.Chance(1, 10) && len(k.Suites) > 0 {
		ins(k.Suites[r.Intn(len(k.Suites))])
	}
	if r.Chance(1, 50) {
		k.Suites = nil
	}
	k.Compression = []uint8{0}
	switch r.Intn(60) {
	case 0:
		k.Compression = []uint8{1}
	case 1:
		k.Compression = nil
	case 2:
		k.Compression = []uint8{1, 0}
	}
	switch r.Intn(5) {
	case 0:
		k.Curves = nil
	case 1:
		k.Curves = []uint16{23}
	default:
		k.Curves = Shuffle16(r, Subset(r, []uint16{23, 24, 25, 29}, 1, 2))
	}
	k.Points = []uint8{0}
	switch r.Intn(8) {
	case 0:
		k.Points = nil
	case 1:
		k.Points = []uint8{1}
	case 2:
		k.Points = []uint8{1, 0}
	}
	if r.Chance(3, 5) {
		k.Alpn = ProtoList(r)
	}
	k.Npn = r.Chance(1, 3)
	k.TkSupported = r.Chance(3, 5)
	k.Ticket, k.Sid = "-", "-"
	switch r.Intn(10) {
	case 0:
		k.Ticket = "bad"
	case 1, 2, 3, 4:
		k.Ticket = GenSess(r, k)
	}
	switch r.Intn(10) {
	case 0:
		k.Sid = "miss"
	case 1:
		k.Sid = "badcache"
	case 2, 3, 4:
		k.Sid = GenSess(r, k)
	}
}
