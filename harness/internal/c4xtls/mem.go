package c4xtls

// In-memory plumbing for complete handshakes (shared by the C41 and C44 harnesses): an unbounded duplex
// connection whose writes never block, a recorder of what each side wrote, and throw-away server certificates.

import (
	"crypto/ecdsa"
	"crypto/elliptic"
	"crypto/rand"
	"crypto/rsa"
	"crypto/x509"
	"crypto/x509/pkix"
	"io"
	"math/big"
	"net"
	"sync"
	"time"

	"github.com/bfenetworks/bfe/bfe_tls"
)

type half struct {
	mu     sync.Mutex
	cond   *sync.Cond
	buf    []byte
	all    []byte // everything ever written (first 32 KB)
	closed bool
}

func newHalf() *half { h := &half{}; h.cond = sync.NewCond(&h.mu); return h }

func (h *half) read(p []byte) (int, error) {
	h.mu.Lock()
	defer h.mu.Unlock()
	for len(h.buf) == 0 && !h.closed {
		h.cond.Wait()
	}
	if len(h.buf) == 0 {
		return 0, io.EOF
	}
	n := copy(p, h.buf)
	h.buf = h.buf[n:]
	return n, nil
}

func (h *half) write(p []byte) (int, error) {
	h.mu.Lock()
	defer h.mu.Unlock()
	if h.closed {
		return 0, io.ErrClosedPipe
	}
	h.buf = append(h.buf, p...)
	if len(h.all) < 1<<15 {
		h.all = append(h.all, p...)
	}
	h.cond.Broadcast()
	return len(p), nil
}

func (h *half) close() {
	h.mu.Lock()
	h.closed = true
	h.cond.Broadcast()
	h.mu.Unlock()
}

// MemConn is one end of the in-memory connection.
type MemConn struct{ in, out *half }

func (m *MemConn) Read(p []byte) (int, error)         { return m.in.read(p) }
func (m *MemConn) Write(p []byte) (int, error)        { return m.out.write(p) }
func (m *MemConn) Close() error                       { m.in.close(); m.out.close(); return nil }
func (m *MemConn) LocalAddr() net.Addr                { return &net.TCPAddr{IP: net.IPv4(127, 0, 0, 1), Port: 443} }
func (m *MemConn) RemoteAddr() net.Addr               { return &net.TCPAddr{IP: net.IPv4(127, 0, 0, 2), Port: 40000} }
func (m *MemConn) SetDeadline(t time.Time) error      { return nil }
func (m *MemConn) SetReadDeadline(t time.Time) error  { return nil }
func (m *MemConn) SetWriteDeadline(t time.Time) error { return nil }

// Written returns a copy of everything this end has written so far.
func (m *MemConn) Written() []byte {
	m.out.mu.Lock()
	defer m.out.mu.Unlock()
	return append([]byte{}, m.out.all...)
}

// MemPipe returns the two ends of a fresh connection.
func MemPipe() (*MemConn, *MemConn) {
	a, b := newHalf(), newHalf()
	return &MemConn{in: a, out: b}, &MemConn{in: b, out: a}
}

var (
	srvCertOnce     sync.Once
	srvRSA, srvECDS bfe_tls.Certificate
	srvCertErr      error
)

func selfSigned(pub, priv interface{}) ([]byte, error) {
	tmpl := &x509.Certificate{
		SerialNumber: big.NewInt(1), Subject: pkix.Name{CommonName: "verif.test"},
		NotBefore: time.Unix(1600000000, 0), NotAfter: time.Unix(4000000000, 0),
		KeyUsage:    x509.KeyUsageDigitalSignature | x509.KeyUsageKeyEncipherment,
		ExtKeyUsage: []x509.ExtKeyUsage{x509.ExtKeyUsageServerAuth}, DNSNames: []string{"verif.test"},
		BasicConstraintsValid: true,
	}
	return x509.CreateCertificate(rand.Reader, tmpl, tmpl, pub, priv)
}

// ServerCerts returns a throw-away RSA-2048 and an ECDSA-P256 server certificate (generated once per process).
func ServerCerts() (rsaCert, ecdsaCert bfe_tls.Certificate, err error) {
	srvCertOnce.Do(func() {
		rk, e := rsa.GenerateKey(rand.Reader, 2048)
		if e != nil {
			srvCertErr = e
			return
		}
		rd, e := selfSigned(&rk.PublicKey, rk)
		if e != nil {
			srvCertErr = e
			return
		}
		ek, e := ecdsa.GenerateKey(elliptic.P256(), rand.Reader)
		if e != nil {
			srvCertErr = e
			return
		}
		ed, e := selfSigned(&ek.PublicKey, ek)
		if e != nil {
			srvCertErr = e
			return
		}
		srvRSA = bfe_tls.Certificate{Certificate: [][]byte{rd}, PrivateKey: rk}
		srvECDS = bfe_tls.Certificate{Certificate: [][]byte{ed}, PrivateKey: ek}
	})
	return srvRSA, srvECDS, srvCertErr
}
