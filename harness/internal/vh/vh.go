// Package vh is the shared skeleton of the per-property correspondence harnesses.
//
// A harness is two functions:
//
//	gen(r *Rand) string        produce one operation line (a whole case: input / op sequence / history)
//	exec(op string) string     run the REAL bfe code on it in-process and return one canonical result line
//
// Main prints "<op>\t<result>" per case: first every line of the corpus files (past failures,
// known-finding witnesses), then -n generated cases derived from one SplitMix64 state seeded by -seed.
// A panic in exec is recovered and reported as result "PANIC:<first line>".
package vh

import (
	"bufio"
	"flag"
	"fmt"
	"os"
	"strings"
	"time"
)

// Rand is SplitMix64; every random choice of a harness derives from it.
type Rand struct{ s uint64 }

func NewRand(seed uint64) *Rand {
	// scramble the seed first: with s = seed*GAMMA the stream of seed k+1 would be the stream of
	// seed k shifted by one draw (shards would repeat each other)
	z := seed + 0x632BE59BD9B4E019
	z = (z ^ (z >> 30)) * 0xBF58476D1CE4E5B9
	z = (z ^ (z >> 27)) * 0x94D049BB133111EB
	z = z ^ (z >> 31)
	return &Rand{s: z}
}

func (r *Rand) U64() uint64 {
	r.s += 0x9E3779B97F4A7C15
	z := r.s
	z = (z ^ (z >> 30)) * 0xBF58476D1CE4E5B9
	z = (z ^ (z >> 27)) * 0x94D049BB133111EB
	return z ^ (z >> 31)
}

// Intn returns a value in [0,n).
func (r *Rand) Intn(n int) int {
	if n <= 0 {
		return 0
	}
	return int(r.U64() % uint64(n))
}

// Range returns a value in [lo,hi].
func (r *Rand) Range(lo, hi int) int { return lo + r.Intn(hi-lo+1) }

func (r *Rand) Bool() bool { return r.U64()&1 == 1 }

// Chance returns true with probability num/den.
func (r *Rand) Chance(num, den int) bool { return r.Intn(den) < num }

func (r *Rand) Bytes(n int) []byte {
	b := make([]byte, n)
	for i := range b {
		b[i] = byte(r.U64())
	}
	return b
}

// Pick returns one of the strings.
func (r *Rand) Pick(xs ...string) string { return xs[r.Intn(len(xs))] }

// Hex encodes bytes for the line protocol ("-" for empty).
func Hex(b []byte) string {
	if len(b) == 0 {
		return "-"
	}
	const d = "0123456789abcdef"
	out := make([]byte, 2*len(b))
	for i, x := range b {
		out[2*i] = d[x>>4]
		out[2*i+1] = d[x&15]
	}
	return string(out)
}

// UnHex decodes Hex.
func UnHex(s string) ([]byte, bool) {
	if s == "-" {
		return nil, true
	}
	if len(s)%2 != 0 {
		return nil, false
	}
	out := make([]byte, len(s)/2)
	for i := 0; i < len(out); i++ {
		a, ok1 := hv(s[2*i])
		b, ok2 := hv(s[2*i+1])
		if !ok1 || !ok2 {
			return nil, false
		}
		out[i] = a<<4 | b
	}
	return out, true
}

func hv(c byte) (byte, bool) {
	switch {
	case c >= '0' && c <= '9':
		return c - '0', true
	case c >= 'a' && c <= 'f':
		return c - 'a' + 10, true
	case c >= 'A' && c <= 'F':
		return c - 'A' + 10, true
	}
	return 0, false
}

// Safe runs f and maps a panic to "PANIC:<msg>".
func Safe(f func() string) (res string) {
	defer func() {
		if e := recover(); e != nil {
			msg := fmt.Sprint(e)
			if i := strings.IndexByte(msg, '\n'); i >= 0 {
				msg = msg[:i]
			}
			res = "PANIC:" + strings.ReplaceAll(msg, "\t", " ")
		}
	}()
	return f()
}

// SafeTimeout is Safe with a watchdog: a call that does not return within d yields "HANG".
// (the goroutine is leaked; harnesses that may hang should keep cases small)
func SafeTimeout(d time.Duration, f func() string) string {
	ch := make(chan string, 1)
	go func() { ch <- Safe(f) }()
	select {
	case s := <-ch:
		return s
	case <-time.After(d):
		return "HANG"
	}
}

func clean(s string) string {
	s = strings.ReplaceAll(s, "\t", " ")
	s = strings.ReplaceAll(s, "\n", "\\n")
	return strings.ReplaceAll(s, "\r", "\\r")
}

// Pre, when set by a harness, emits deterministic cases (exhaustive enumerations of small
// spaces, boundary tables) before the random ones.  It runs only in the shard that also runs the
// corpus (flag -pre), with thorough=true in the thorough tier.
var Pre func(emit func(op string), thorough bool)

// Thorough reports the tier the harness was started in (flag -tier thorough).
var Thorough bool

// Main is the common entry point.
func Main(gen func(r *Rand) string, exec func(op string) string) {
	seed := flag.Uint64("seed", 1, "PRNG seed")
	n := flag.Int("n", 1000, "number of generated cases")
	corpus := flag.String("corpus", "", "comma separated files of op lines to run first")
	pre := flag.Bool("pre", false, "run the deterministic Pre cases first")
	tier := flag.String("tier", "quick", "quick|thorough")
	flag.Parse()
	Thorough = *tier == "thorough"
	w := bufio.NewWriterSize(os.Stdout, 1<<16)
	defer w.Flush()
	emit := func(op string) {
		op = clean(op)
		fmt.Fprintf(w, "%s\t%s\n", op, clean(Safe(func() string { return exec(op) })))
	}
	if *corpus != "" {
		for _, f := range strings.Split(*corpus, ",") {
			fh, err := os.Open(f)
			if err != nil {
				continue
			}
			sc := bufio.NewScanner(fh)
			sc.Buffer(make([]byte, 1<<20), 1<<26)
			for sc.Scan() {
				line := sc.Text()
				if line == "" || strings.HasPrefix(line, "#") {
					continue
				}
				if i := strings.IndexByte(line, '\t'); i >= 0 {
					line = line[:i]
				}
				emit(line)
			}
			fh.Close()
		}
	}
	if *pre && Pre != nil {
		Pre(emit, Thorough)
	}
	r := NewRand(*seed)
	for i := 0; i < *n; i++ {
		emit(gen(r))
	}
}
