// Package h2c33 is the scripted HTTP/2 client + controllable connection shared by the C33 and C37
// harnesses.  The server side is the REAL bfe_http2 Server.ServeConn (started through the verif hook
// VerifC33Serve).
//
// Client -> server bytes are put into an in-memory buffer the server's frame reader consumes.  The
// reader goroutine asks for the next frame only after the serve loop has processed the previous one
// (readFrames' gate), so "the reader is blocked in Read on an empty buffer" implies "every frame sent so
// far has been processed": WaitIdle waits for exactly that.  No marker frames are needed, so a script can
// consist exclusively of frames that end in an error path.
// Server -> client bytes are collected in memory; the connection can be told to STALL, i.e. to block
// the server's next conn.Write until released (a client that does not read).
package h2c33

import (
	"bytes"
	"encoding/binary"
	"errors"
	"fmt"
	"io"
	"net"
	"sort"
	"strconv"
	"sync"
	"time"

	"github.com/bfenetworks/bfe/bfe_http2"
	"github.com/bfenetworks/bfe/bfe_http2/hpack"
)

type addr struct{}

func (addr) Network() string { return "pipe" }
func (addr) String() string  { return "verif-client" }

// Conn is the server's view of the connection.
type Conn struct {
	rmu     sync.Mutex // client -> server direction
	rcond   *sync.Cond
	rbuf    []byte
	waiting bool // the server's reader is blocked in Read with nothing buffered
	rclosed bool
	maxRead int // if > 0, a Read returns at most this many bytes (segmentation of the client's byte stream)

	mu      sync.Mutex
	out     bytes.Buffer
	stall   bool
	blocked chan struct{} // receives one token when a Write starts blocking
	release chan struct{}
	closed  chan struct{}
	once    sync.Once
}

func (c *Conn) Read(p []byte) (int, error) {
	c.rmu.Lock()
	defer c.rmu.Unlock()
	for len(c.rbuf) == 0 && !c.rclosed {
		c.waiting = true
		c.rcond.Broadcast()
		c.rcond.Wait()
	}
	c.waiting = false
	if len(c.rbuf) == 0 {
		return 0, io.EOF
	}
	if c.maxRead > 0 && len(p) > c.maxRead {
		p = p[:c.maxRead]
	}
	n := copy(p, c.rbuf)
	c.rbuf = c.rbuf[n:]
	return n, nil
}

// feed appends client bytes; false if the connection is closed.
func (c *Conn) feed(b []byte) bool {
	c.rmu.Lock()
	defer c.rmu.Unlock()
	if c.rclosed {
		return false
	}
	c.rbuf = append(c.rbuf, b...)
	c.waiting = false
	c.rcond.Broadcast()
	return true
}

// waitIdle waits until the server's reader has consumed everything and is blocked waiting for more
// (true), or the connection was closed / the timeout expired (false).
func (c *Conn) waitIdle(d time.Duration) bool {
	expired := false
	t := time.AfterFunc(d, func() {
		c.rmu.Lock()
		expired = true
		c.rcond.Broadcast()
		c.rmu.Unlock()
	})
	defer t.Stop()
	c.rmu.Lock()
	defer c.rmu.Unlock()
	for !(c.waiting && len(c.rbuf) == 0) && !c.rclosed && !expired {
		c.rcond.Wait()
	}
	return c.waiting && len(c.rbuf) == 0 && !c.rclosed
}
func (c *Conn) Write(p []byte) (int, error) {
	c.mu.Lock()
	if c.stall {
		rel := c.release
		c.mu.Unlock()
		select {
		case c.blocked <- struct{}{}:
		default:
		}
		select {
		case <-rel:
		case <-c.closed:
			return 0, errors.New("use of closed network connection")
		}
		c.mu.Lock()
	}
	select {
	case <-c.closed:
		c.mu.Unlock()
		return 0, errors.New("use of closed network connection")
	default:
	}
	c.out.Write(p)
	c.mu.Unlock()
	return len(p), nil
}
func (c *Conn) Close() error {
	c.once.Do(func() { close(c.closed) })
	c.rmu.Lock()
	c.rclosed = true
	c.rcond.Broadcast()
	c.rmu.Unlock()
	return nil
}
func (c *Conn) LocalAddr() net.Addr                { return addr{} }
func (c *Conn) RemoteAddr() net.Addr               { return addr{} }
func (c *Conn) SetDeadline(t time.Time) error      { return nil }
func (c *Conn) SetReadDeadline(t time.Time) error  { return nil }
func (c *Conn) SetWriteDeadline(t time.Time) error { return nil }

// Client is the scripted peer.
type Client struct {
	C    *Conn
	V    *bfe_http2.VerifC33Conn
	henc *hpack.Encoder
	hbuf bytes.Buffer
	pos  int // bytes of C.out already parsed
}

// Start creates the connection pair and starts the real server on it.
func Start(h interface{}, conf *bfe_http2.Server, serve func(c net.Conn) *bfe_http2.VerifC33Conn) *Client {
	c := &Conn{blocked: make(chan struct{}, 1), release: make(chan struct{}), closed: make(chan struct{})}
	c.rcond = sync.NewCond(&c.rmu)
	cl := &Client{C: c}
	cl.henc = hpack.NewEncoder(&cl.hbuf)
	cl.V = serve(c)
	return cl
}

func (cl *Client) Close() {
	cl.C.Close()
	if cl.V != nil {
		select {
		case <-cl.V.Done:
		case <-time.After(3 * time.Second):
		}
	}
}

// Send writes raw bytes to the server; false if the server closed the connection.
func (cl *Client) Send(b []byte) bool { return cl.C.feed(b) }

func Frame(typ, flags byte, id uint32, payload []byte) []byte {
	b := make([]byte, 9+len(payload))
	b[0], b[1], b[2] = byte(len(payload)>>16), byte(len(payload)>>8), byte(len(payload))
	b[3], b[4] = typ, flags
	binary.BigEndian.PutUint32(b[5:], id&0x7fffffff)
	copy(b[9:], payload)
	return b
}

const (
	TData         = 0
	THeaders      = 1
	TRst          = 3
	TSettings     = 4
	TPing         = 6
	TGoAway       = 7
	TWindowUpdate = 8
)

func Preface() []byte { return append([]byte(bfe_http2.ClientPreface), Frame(TSettings, 0, 0, nil)...) }

func Ping(ack bool) []byte {
	var fl byte
	if ack {
		fl = 1
	}
	return Frame(TPing, fl, 0, make([]byte, 8))
}

func Settings(kv ...uint32) []byte {
	var p []byte
	for i := 0; i+1 < len(kv); i += 2 {
		x := make([]byte, 6)
		binary.BigEndian.PutUint16(x, uint16(kv[i]))
		binary.BigEndian.PutUint32(x[2:], kv[i+1])
		p = append(p, x...)
	}
	return Frame(TSettings, 0, 0, p)
}

func u32(v uint32) []byte { b := make([]byte, 4); binary.BigEndian.PutUint32(b, v); return b }

func Rst(id, code uint32) []byte         { return Frame(TRst, 0, id, u32(code)) }
func WindowUpdate(id, inc uint32) []byte { return Frame(TWindowUpdate, 0, id, u32(inc)) }

// Data builds a DATA frame with dlen data bytes; pad < 0 means no PADDED flag.
func Data(id uint32, dlen, pad int, end bool) []byte {
	var fl byte
	if end {
		fl |= 1
	}
	var p []byte
	if pad >= 0 {
		fl |= 8
		p = append(p, byte(pad))
	}
	p = append(p, bytes.Repeat([]byte{'x'}, dlen)...)
	if pad > 0 {
		p = append(p, make([]byte, pad)...)
	}
	return Frame(TData, fl, id, p)
}

// Headers builds a POST request; decl < 0 means no content-length.
func (cl *Client) Headers(id uint32, decl int64, end bool) []byte {
	cl.hbuf.Reset()
	w := func(k, v string) { cl.henc.WriteField(hpack.HeaderField{Name: k, Value: v}) }
	w(":method", "POST")
	w(":path", "/")
	w(":scheme", "https")
	w(":authority", "example.org")
	if decl >= 0 {
		w("content-length", strconv.FormatInt(decl, 10))
	}
	fl := byte(4) // END_HEADERS
	if end {
		fl |= 1
	}
	return Frame(THeaders, fl, id, append([]byte(nil), cl.hbuf.Bytes()...))
}

// Chunk makes every Read of the server return at most k bytes (0 = unlimited).
func (cl *Client) Chunk(k int) {
	cl.C.rmu.Lock()
	cl.C.maxRead = k
	cl.C.rmu.Unlock()
}

// Sync returns true when every frame sent so far has been processed by the serve loop (the server's
// frame reader is waiting for more input); false if the connection was closed.
// The reader is released (readMore) just before the serve loop finishes its iteration, so a round trip
// through the serve loop (Snap, served in a later iteration or refused once serve() has returned) makes
// sure that iteration — including its end-of-iteration checks — is over.
func (cl *Client) Sync() bool {
	if !cl.C.waitIdle(120 * time.Second) {
		return false
	}
	return cl.V.Snap().Alive
}

// Stall makes the server's next conn.Write block; WaitBlocked waits until it does.
func (cl *Client) Stall() {
	cl.C.mu.Lock()
	cl.C.stall = true
	cl.C.release = make(chan struct{})
	select {
	case <-cl.C.blocked:
	default:
	}
	cl.C.mu.Unlock()
}

func (cl *Client) WaitBlocked(d time.Duration) bool {
	select {
	case <-cl.C.blocked:
		return true
	case <-cl.V.Done:
		return false
	case <-time.After(d):
		return false
	}
}

// Release lets blocked and future writes through.
func (cl *Client) Release() {
	cl.C.mu.Lock()
	if cl.C.stall {
		cl.C.stall = false
		close(cl.C.release)
	}
	cl.C.mu.Unlock()
}

// Quiesce waits until the serve loop has nothing in flight and nothing queued (or is gone).
// It returns the last snapshot; ok=false on timeout.
func (cl *Client) Quiesce(cond func(s bfe_http2.VerifC33Snap) bool) (bfe_http2.VerifC33Snap, bool) {
	deadline := time.Now().Add(30 * time.Second)
	for i := 0; ; i++ {
		s := cl.V.Snap()
		if !s.Alive {
			return s, true
		}
		if !s.Writing && s.SchedEmpty && !s.NeedsFlush && (cond == nil || cond(s)) {
			return s, true
		}
		if time.Now().After(deadline) {
			return s, false
		}
		if i > 20 {
			time.Sleep(50 * time.Microsecond)
		}
	}
}

// WaitClosed waits up to d for ServeConn to return.
func (cl *Client) WaitClosed(d time.Duration) bool {
	select {
	case <-cl.V.Done:
		return true
	case <-time.After(d):
		return false
	}
}

// Closed reports whether ServeConn has returned.
func (cl *Client) Closed() bool {
	select {
	case <-cl.V.Done:
		return true
	default:
		return false
	}
}

// Tokens parses the complete frames the server wrote since the last call into canonical tokens:
// W<id>:<inc>  R<id>:<code>  G:<code>  h<id>:<end>  d<id>:<len>:<end>  S (SETTINGS)  A (SETTINGS ack)  P (PING ack)
func (cl *Client) Tokens() []string {
	cl.C.mu.Lock()
	b := append([]byte(nil), cl.C.out.Bytes()[cl.pos:]...)
	cl.C.mu.Unlock()
	var out []string
	for len(b) >= 9 {
		n := int(b[0])<<16 | int(b[1])<<8 | int(b[2])
		if len(b) < 9+n {
			break
		}
		typ, fl := b[3], b[4]
		id := binary.BigEndian.Uint32(b[5:]) & 0x7fffffff
		p := b[9 : 9+n]
		switch typ {
		case TWindowUpdate:
			out = append(out, fmt.Sprintf("W%d:%d", id, binary.BigEndian.Uint32(p)&0x7fffffff))
		case TRst:
			out = append(out, fmt.Sprintf("R%d:%d", id, binary.BigEndian.Uint32(p)))
		case TGoAway:
			out = append(out, fmt.Sprintf("G:%d", binary.BigEndian.Uint32(p[4:])))
		case THeaders:
			out = append(out, fmt.Sprintf("h%d:%d", id, fl&1))
		case TData:
			out = append(out, fmt.Sprintf("d%d:%d:%d", id, n, fl&1))
		case TSettings:
			if fl&1 != 0 {
				out = append(out, "A")
			} else {
				out = append(out, "S")
			}
		case TPing:
			out = append(out, "P")
		default:
			out = append(out, fmt.Sprintf("?%d", typ))
		}
		b = b[9+n:]
		cl.pos += 9 + n
	}
	sort.Strings(out)
	return out
}
