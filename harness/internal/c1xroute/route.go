// Package c1xroute is shared by the C10/C11/C12 harnesses: the textual rule format of their op lines,
// generators for overlapping basic route rules and probes, and loading through bfe's real
// route_rule_conf.RouteConfLoad.
package c1xroute

import (
	"encoding/json"
	"flag"
	"os"
	"strconv"
	"strings"

	"bfeverif/harness/internal/vh"
	"github.com/bfenetworks/bfe/bfe_config/bfe_route_conf/route_rule_conf"
)

// Rule is one basic rule.  Hosts/Paths == nil means "not configured".
type Rule struct {
	Hosts   []string
	Paths   []string
	Cluster string
}

// Adv is one advanced rule.
type Adv struct {
	Cond    string
	Cluster string
}

func fmtList(xs []string) string {
	if len(xs) == 0 {
		return "-"
	}
	return strings.Join(xs, ",")
}

func parseList(s string) []string {
	if s == "-" {
		return nil
	}
	return strings.Split(s, ",")
}

// FormatRules: rule = hosts!paths!cluster, rules joined by '&' ("" = no rules).
func FormatRules(rs []Rule) string {
	out := make([]string, len(rs))
	for i, r := range rs {
		out[i] = fmtList(r.Hosts) + "!" + fmtList(r.Paths) + "!" + r.Cluster
	}
	return strings.Join(out, "&")
}

func ParseRules(s string) ([]Rule, bool) {
	if s == "" {
		return nil, true
	}
	var rs []Rule
	for _, x := range strings.Split(s, "&") {
		f := strings.Split(x, "!")
		if len(f) != 3 {
			return nil, false
		}
		rs = append(rs, Rule{parseList(f[0]), parseList(f[1]), f[2]})
	}
	return rs, true
}

func FormatAdv(as []Adv) string {
	out := make([]string, len(as))
	for i, a := range as {
		out[i] = vh.Hex([]byte(a.Cond)) + "!" + a.Cluster
	}
	return strings.Join(out, "&")
}

func ParseAdv(s string) ([]Adv, bool) {
	if s == "" {
		return nil, true
	}
	var as []Adv
	for _, x := range strings.Split(s, "&") {
		f := strings.Split(x, "!")
		if len(f) != 2 {
			return nil, false
		}
		b, ok := vh.UnHex(f[0])
		if !ok {
			return nil, false
		}
		as = append(as, Adv{string(b), f[1]})
	}
	return as, true
}

// KV extracts k=... from a ';' separated op line.
func KV(op, k string) (string, bool) {
	for _, f := range strings.Split(op, ";") {
		if strings.HasPrefix(f, k+"=") {
			return f[len(k)+1:], true
		}
	}
	return "", false
}

type basicFile struct {
	Hostname    []string
	Path        []string
	ClusterName *string
}
type advFile struct {
	Cond        *string
	ClusterName *string
}
type routeFile struct {
	Version     *string
	BasicRule   map[string][]basicFile `json:",omitempty"`
	ProductRule map[string][]advFile   `json:",omitempty"`
}

// Load writes a route_rule.data for product `product` and loads it with the real RouteConfLoad.
// hasBasic/hasAdv say whether the product appears in BasicRule / ProductRule at all.
func Load(product string, hasBasic bool, basic []Rule, hasAdv bool, adv []Adv) (*route_rule_conf.RouteTableConf, error) {
	v := "v1"
	rf := routeFile{Version: &v}
	if hasBasic {
		bs := make([]basicFile, len(basic))
		for i := range basic {
			c := basic[i].Cluster
			bs[i] = basicFile{basic[i].Hosts, basic[i].Paths, &c}
		}
		rf.BasicRule = map[string][]basicFile{product: bs}
	}
	if hasAdv {
		as := make([]advFile, len(adv))
		for i := range adv {
			c, k := adv[i].Cluster, adv[i].Cond
			as[i] = advFile{&k, &c}
		}
		rf.ProductRule = map[string][]advFile{product: as}
	}
	if !hasBasic && !hasAdv {
		// the loader wants at least one of the two sections: give another product an advanced table
		c, k := "other-cluster", "default_t()"
		rf.ProductRule = map[string][]advFile{product + "-other": {{&k, &c}}}
	}
	data, err := json.Marshal(rf)
	if err != nil {
		return nil, err
	}
	f, err := os.CreateTemp("", "verif-c1x-*.json")
	if err != nil {
		return nil, err
	}
	name := f.Name()
	defer os.Remove(name)
	if _, err := f.Write(data); err != nil {
		f.Close()
		return nil, err
	}
	f.Close()
	return route_rule_conf.RouteConfLoad(name)
}

// ---------------------------------------------------------------- generators

var labels = []string{"a", "b", "c", "www", "foo", "com", "A", "Www", "x-y", "1"}
var elems = []string{"a", "b", "c", "foo", "ab", "A", "a.b", "x_y"}

func flipCase(r *vh.Rand, s string) string {
	b := []byte(s)
	for i := range b {
		if r.Chance(1, 3) {
			if b[i] >= 'a' && b[i] <= 'z' {
				b[i] -= 32
			} else if b[i] >= 'A' && b[i] <= 'Z' {
				b[i] += 32
			}
		}
	}
	return string(b)
}

// GenHostName: 1..4 labels out of a tiny vocabulary so that rules overlap.
func GenHostName(r *vh.Rand) string {
	n := 1 + r.Intn(4)
	ls := make([]string, n)
	for i := range ls {
		ls[i] = labels[r.Intn(6)]
	}
	return strings.Join(ls, ".")
}

// GenHostPattern: exact / wildcard / any host pattern of a basic rule (mostly valid).
func GenHostPattern(r *vh.Rand, pool []string) string {
	base := GenHostName(r)
	if len(pool) > 0 && r.Chance(1, 2) {
		base = pool[r.Intn(len(pool))]
		base = strings.TrimPrefix(base, "*.")
		if base == "*" || base == "" {
			base = GenHostName(r)
		}
		// a suffix or an extension of an existing host
		switch r.Intn(3) {
		case 0:
			if i := strings.IndexByte(base, '.'); i >= 0 {
				base = base[i+1:]
			}
		case 1:
			base = labels[r.Intn(6)] + "." + base
		}
	}
	var h string
	switch r.Intn(10) {
	case 0:
		h = "*"
	case 1, 2, 3:
		h = "*." + base
	default:
		h = base
	}
	if r.Chance(1, 8) {
		h = flipCase(r, h)
	}
	if r.Chance(1, 12) {
		h += "."
	}
	if r.Chance(1, 15) { // accepted by the loader although undocumented / called illegal
		h = r.Pick("a.com:80", "*.com:80", "*.", ".a.com", "a..b", "*..com", "a.com.", "*.a.com.", "A.COM:8080", ".")
	}
	if r.Chance(1, 20) {
		h = OddHostPatterns[r.Intn(len(OddHostPatterns))]
	}
	if r.Chance(1, 40) { // malformed stream
		h = r.Pick("", "*a.com", "*.*.com", "a.*.com", "a*", "*.", ".", ".a.com", "a..b", "a.com:80", "*.a.com:80")
	}
	return h
}

func GenPathName(r *vh.Rand) string {
	n := r.Intn(4)
	p := ""
	for i := 0; i < n; i++ {
		p += "/" + elems[r.Intn(5)]
	}
	if p == "" || r.Chance(1, 5) {
		p += "/"
	}
	return p
}

func GenPathPattern(r *vh.Rand, pool []string) string {
	base := GenPathName(r)
	if len(pool) > 0 && r.Chance(1, 2) {
		base = strings.TrimSuffix(pool[r.Intn(len(pool))], "*")
		switch r.Intn(3) {
		case 0:
			if i := strings.LastIndexByte(strings.TrimSuffix(base, "/"), '/'); i >= 0 {
				base = base[:i+1]
			}
		case 1:
			if !strings.HasSuffix(base, "/") {
				base += "/"
			}
			base += elems[r.Intn(5)]
		}
	}
	var p string
	switch r.Intn(10) {
	case 0:
		p = "*"
	case 1, 2:
		if strings.HasSuffix(base, "/") {
			p = base + "*"
		} else {
			p = base + "/*"
		}
	case 3, 4:
		p = base + "*" // "/foo*" form (same key as "/foo/*")
	default:
		p = base
	}
	if r.Chance(1, 15) { // accepted by the loader although route.md calls them illegal
		p = r.Pick("a", "a*", "foo/b*", "/a//b", "//", "/a//*", "/fo*", "/a/fo*", "//*", "a/")
	}
	if r.Chance(1, 40) {
		p = r.Pick("", "/a*b", "/*/*", "**", "*/", "/*a")
	}
	if r.Chance(1, 20) {
		p = OddPathPatterns[r.Intn(len(OddPathPatterns))]
	}
	return p
}

// GenRules: n basic rules with overlapping hosts and paths; cluster names c0,c1,…
// advMode: allow ADVANCED_MODE / empty cluster names (C12).
func GenRules(r *vh.Rand, n int, advMode bool) []Rule {
	var rs []Rule
	var hpool, ppool []string
	for i := 0; i < n; i++ {
		var ru Rule
		nh := 1
		if r.Chance(1, 5) {
			nh = r.Intn(3)
		}
		np := 1
		if r.Chance(1, 5) {
			np = r.Intn(3)
		}
		if nh == 0 && np == 0 && !r.Chance(1, 20) {
			nh = 1
		}
		for j := 0; j < nh; j++ {
			h := GenHostPattern(r, hpool)
			hpool = append(hpool, h)
			ru.Hosts = append(ru.Hosts, h)
		}
		for j := 0; j < np; j++ {
			p := GenPathPattern(r, ppool)
			ppool = append(ppool, p)
			ru.Paths = append(ru.Paths, p)
		}
		ru.Cluster = "c" + string(rune('0'+i%10))
		if advMode {
			if r.Chance(1, 4) {
				ru.Cluster = "ADVANCED_MODE"
			} else if r.Chance(1, 40) {
				ru.Cluster = ""
			}
		}
		rs = append(rs, ru)
	}
	return rs
}

// unusual but legal request paths / path patterns / hosts (hardening round)
var OddPaths = []string{"", "a", "a/b", "//", "///", "/a/", "/a//", "*", "/*", "/**", "/a%2Fb", "/a%2fb/", "/a?x=1", "/a/./b", "/a/../b", "/A", "/a b",
	"/a/b/c/d/e/f/g/h/i/j/k/l/m/n/o/p", "/" + strings.Repeat("x", 2000), "/a/" + strings.Repeat("y/", 500), "/\u00e9", "/a/*", "/a*", "/.", "/..", "/a:b", "/a.b/"}
var OddPathPatterns = []string{"/a%2Fb", "/a%2Fb*", "/a?x=1", "/a/./b", "/A*", "/a b*", "/" + strings.Repeat("x", 2000), "/" + strings.Repeat("x", 1999) + "*",
	"/a/b/c/d/e/f/g/h/*", "/.", "/..*", "/a:b*", "/\u00e9*", "/a.b/*"}
var OddHosts = []string{"xn--bcher-kva.example", "XN--BCHER-KVA.EXAMPLE.", "a.b.c.d.e.f.g.h.com", "123.45", "1.2.3.4", "1.2.3.4:80", "_dmarc.a.com", "a-.com",
	"localhost", "LOCALHOST.", "::1", "[::1]", "[::1]:80", "[fe80::1%eth0]:80", "a.com:0", "a.com:http", "a.com..", "..", strings.Repeat("a", 63) + ".com",
	strings.Repeat("a.", 100) + "com", "x.y." + strings.Repeat("a.", 100) + "com"}
var OddHostPatterns = []string{"xn--bcher-kva.example", "*.xn--bcher-kva.example", "*.b.c.d.e.f.g.h.com", "*.h.com", "123.45", "*.45", "1.2.3.4", "_dmarc.a.com",
	"localhost", "LOCALHOST", "[::1]", "[fe80::1%eth0]", "*.COM.", strings.Repeat("a", 63) + ".com", "*." + strings.Repeat("a.", 100) + "com"}

// GenProbeHost derives a request host from the rules' own host patterns.
func GenProbeHost(r *vh.Rand, rs []Rule) string {
	var pool []string
	for _, ru := range rs {
		pool = append(pool, ru.Hosts...)
	}
	h := GenHostName(r)
	if len(pool) > 0 && !r.Chance(1, 6) {
		h = pool[r.Intn(len(pool))]
		if strings.HasPrefix(h, "*") {
			switch r.Intn(8) {
			case 0: // keep the star literally
			case 1: // two labels
				h = labels[r.Intn(6)] + "." + labels[r.Intn(6)] + h[1:]
			case 2: // the bare suffix
				h = strings.TrimPrefix(h[1:], ".")
			case 3: // empty label
				h = h[1:]
			default:
				h = labels[r.Intn(6)] + h[1:]
			}
		} else {
			switch r.Intn(8) {
			case 0:
				h = labels[r.Intn(6)] + "." + h
			case 1:
				if i := strings.IndexByte(h, '.'); i >= 0 {
					h = h[i+1:]
				}
			case 2:
				h = h + labels[r.Intn(6)]
			}
		}
	}
	if r.Chance(1, 4) {
		h = flipCase(r, h)
	}
	if r.Chance(1, 10) && !strings.HasSuffix(h, ".") {
		h += "."
	}
	if r.Chance(1, 5) {
		h += r.Pick(":80", ":8080", ":", ":80:90", ":a.com")
	}
	if r.Chance(1, 60) {
		h = r.Pick("", ".", "..", ":80", "a..com", "*", "*.com")
	}
	if r.Chance(1, 20) {
		h = OddHosts[r.Intn(len(OddHosts))]
	}
	return h
}

// GenProbePath derives a request path from the rules' own path patterns.
func GenProbePath(r *vh.Rand, rs []Rule) string {
	var pool []string
	for _, ru := range rs {
		pool = append(pool, ru.Paths...)
	}
	p := GenPathName(r)
	if len(pool) > 0 && !r.Chance(1, 6) {
		p = pool[r.Intn(len(pool))]
		star := strings.HasSuffix(p, "*")
		p = strings.TrimSuffix(p, "*")
		switch r.Intn(8) {
		case 0:
			if star {
				p += "*"
			}
		case 1, 2:
			if !strings.HasSuffix(p, "/") {
				p += "/"
			}
			p += elems[r.Intn(5)]
			if r.Chance(1, 3) {
				p += "/" + elems[r.Intn(5)]
			}
		case 3:
			p = strings.TrimSuffix(p, "/")
		case 4:
			if !strings.HasSuffix(p, "/") {
				p += "/"
			}
		case 5:
			p += elems[r.Intn(5)] // "/foo" -> "/fooab": same element prefix as string, different element
		case 6:
			if i := strings.LastIndexByte(strings.TrimSuffix(p, "/"), '/'); i >= 0 {
				p = p[:i+1]
			}
		}
	}
	if r.Chance(1, 20) {
		p = r.Pick("", "/", "//", "*", "a", "/a//b", "/foo", "/fo", "/fo/x", "foo/b/c", "a/", "/a//x", "//x")
	}
	if r.Chance(1, 15) {
		p = OddPaths[r.Intn(len(OddPaths))]
	}
	return p
}

// CaseRand derives an independent generator for one case.  (Work-around: vh.NewRand(seed+1) yields the
// stream of vh.NewRand(seed) shifted by one draw, and the check seeds its shards with consecutive seeds,
// so without this the shards mostly repeat each other's cases.)
func CaseRand(r *vh.Rand) *vh.Rand {
	seed := uint64(1)
	if f := flag.Lookup("seed"); f != nil {
		if v, err := strconv.ParseUint(f.Value.String(), 10, 64); err == nil {
			seed = v
		}
	}
	z := (seed + 0x632BE59BD9B4E019) * 0xD6E8FEB86659FD93
	z ^= z >> 29
	z *= 0xBF58476D1CE4E5B9
	z ^= z >> 32
	return vh.NewRand(r.U64() ^ z)
}
